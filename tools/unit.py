#!/usr/bin/env python3
"""Assemble a Verus unit from /repo's working tree.

unit dir layout:
    template.rs     prelude text + `//@ ...` layout directives
    *.vspec         contracts and rewrite directives (see parse_vspec)

template directives (one per line, at column 0):
    //@ source <alias> <path relative to the repository root>
    //@ item <alias> <kind> <name> [strip_attrs] [pub_fields] [only=<fn>,<fn>]   (only=: R14, other fns of the impl dropped)
    //@ expand <alias> <macro name>          expand every top-level invocation of a ($t:ty) macro (R6)
    //@ stmt <alias> <fn key> <let|call|kw> <name> <#n> <marker key>
                                             R15: ONE statement of a function, verbatim (with the vspec's hints / retokens applied),
                                             placed inside a wrapper function written in the template whose parameters are the
                                             statement's free variables; the template brackets the wrapper with /*<fn:KEY>*/ markers
vspec entries:
    @@ stripmacro <alias> <macro>                      R1
    @@ breakvalue <alias> <fn key> <'label> <type>     R2
    @@ dropcontinue <alias> <fn key> <#n|'label>       R3
    @@ labelblock <alias> <fn key> <'label>            R9
    @@ forbytes <alias> <fn key> <#n|'label>           R12
    @@ unmutparam <alias> <fn key> <param names..>      R11
    @@ closure <alias> <fn key> <param tokens..>        R10 (params:/ret:/spec:); `closure?` = attach only if present
    @@ retoken <alias> <kind> <name>   (from:/to:/rule:/note: sections; tokens space separated)
    @@ in <alias|*> <kind> <name-glob>   (items: inserted at the start of the body)
    @@ fn <alias|*> <key-glob>           (tags:/ret:/attr:/spec:/body:)
    @@ loop <alias|*> <key-glob> <#n|'label>   (spec:/body:)
    @@ hint <alias> <fn key> before|after let|call <name> [#n]   (body:)  proof block at a statement boundary
    @@ count <alias> <kind> <name> <identifier> <n>     side condition of a rewrite: the identifier occurs exactly n times in the item
    (loop entries may carry `iter: <name>`: R16, `for p in e` -> `for p in <name>: e`)
"""
import fnmatch
import json
import os
import re

import rsx
from rsx import Drift


class Unit:
    def __init__(self, unit_dir, repo):
        self.dir = unit_dir
        self.repo = repo
        self.sources = {}      # alias -> Src
        self.edits = {}        # alias -> Edits
        self.index = {}        # alias -> (top, fns, containers)
        self.entries = []
        self.rewrite_log = []
        self.items_log = []    # extracted items with hashes
        self.fn_meta = {}      # marker key -> dict(tags, drifted, origin, line)
        self.out = []
        self.notes = []

    # ------------------------------------------------------------------
    def load(self):
        for f in sorted(os.listdir(self.dir)):
            if f.endswith(".vspec"):
                self.entries += rsx.parse_vspec(os.path.join(self.dir, f))
        self.template = open(os.path.join(self.dir, "template.rs")).read().split("\n")
        for line in self.template:
            if line.startswith("//@ source "):
                _, _, alias, path = line.split(None, 3)
                full = os.path.join(self.repo, path.strip())
                if not os.path.exists(full):
                    raise Drift("source file %s no longer exists" % path)
                src = rsx.Src(open(full).read(), path.strip())
                self.sources[alias] = src
                self.edits[alias] = rsx.Edits(src)
                self.index[alias] = rsx.index_file(src)

    # ------------------------------------------------------------------
    def _find_item(self, alias, kind, name):
        top, fns, conts = self.index[alias]
        hits = [it for it in top if it.kind == kind and it.name == name]
        if len(hits) != 1:
            raise Drift("%s: item `%s %s` found %d times (expected once)" % (
                self.sources[alias].origin, kind, name, len(hits)))
        return hits[0]

    def _fn(self, alias, key):
        fns = self.index[alias][1]
        if key not in fns:
            raise Drift("%s: function %s not found" % (self.sources[alias].origin, key))
        return fns[key]

    def apply_rewrites(self):
        """Rewrite directives of the vspec (R1, R2, R3, R5, R9) on first-stage sources."""
        for e in self.entries:
            h = e.head
            if h[0] == "stripmacro":
                alias, macro = h[1], h[2]
                src = self.sources[alias]
                ok = rsx.check_debug_macro(src) if macro == "debug" else False
                n = rsx.r1_strip_macro_stmts(src, self.edits[alias], macro, 0, len(src.toks), ok)
                e.used = True
                self.notes.append("R1: %d `%s!` statements removed from %s" % (n, macro, src.origin))
            elif h[0] == "breakvalue":
                alias, key, label, ty = h[1], h[2], h[3], " ".join(h[4:])
                rsx.r2_break_value(self.sources[alias], self.edits[alias], self._fn(alias, key), label, ty)
                e.used = True
            elif h[0] == "dropcontinue":
                alias, key, which = h[1], h[2], h[3]
                rsx.r3_drop_tail_continue(self.sources[alias], self.edits[alias], self._fn(alias, key), which)
                e.used = True
            elif h[0] == "forbytes":
                alias, key, which = h[1], h[2], h[3]
                rsx.r12_for_bytes_enumerate(self.sources[alias], self.edits[alias], self._fn(alias, key), which)
                e.used = True
            elif h[0] == "labelblock":
                alias, key, label = h[1], h[2], h[3]
                rsx.r9_label_block(self.sources[alias], self.edits[alias], self._fn(alias, key), label, e)
                e.used = True
            elif h[0] == "unmutparam":
                alias, key = h[1], h[2]
                for nm in h[3:]:
                    rsx.r11_unmut_param(self.sources[alias], self.edits[alias], self._fn(alias, key), nm)
                e.used = True
            elif h[0] in ("closure", "closure?"):
                # `closure?`: the contract attaches if the closure is there; if the code no longer has it, whatever replaced it
                # is verified without this annotation (and fails the caller's obligations if it matters)
                alias, key = h[1], h[2]
                try:
                    rsx.annotate_closure(self.sources[alias], self.edits[alias], self._fn(alias, key), h[3:], e)
                except Drift as d:
                    if h[0] == "closure" or "found 0 times" not in str(d):
                        raise
                    self.notes.append("optional closure contract not attached: %s" % d)
                e.used = True
            elif h[0] == "count":
                # @@ count <alias> <kind> <name> <identifier> <n>: side condition of a rewrite - the identifier occurs n times
                alias, kind, name, ident, want = h[1], h[2], h[3], h[4], int(h[5])
                it = self._find_item(alias, kind, name)
                src = self.sources[alias]
                n = sum(1 for i in range(it.tok_lo, it.tok_hi + 1) if src.toks[i].kind == "ident" and src.toks[i].text == ident)
                if n != want:
                    raise Drift("%s: `%s` occurs %d times in %s %s (side condition of a rewrite expects %d)" % (
                        src.origin, ident, n, kind, name, want))
                e.used = True
            elif h[0] == "retoken":
                alias, kind, name = h[1], h[2], h[3]
                it = self._find_item(alias, kind, name)
                pat = e.get("from").split()
                n = rsx.token_replace(self.sources[alias], self.edits[alias], it.tok_lo, it.tok_hi, pat,
                                      e.get("to").strip(), e.get("rule").strip() or "R5", e.get("note").strip())
                want = e.get("count").strip()
                if n == 0 or (want and int(want) != n):
                    raise Drift("%s: retoken `%s` in %s %s matched %d times (expected %s)" % (
                        self.sources[alias].origin, " ".join(pat), kind, name, n, want or ">0"))
                e.used = True

    # ------------------------------------------------------------------
    def _inject_into(self, alias, src, ed, top, fns, only_items):
        """Attach `in`, `fn`, `loop` entries to the given items of a source (first or second stage)."""
        names = set()
        for it in only_items:
            names.add((it.kind, it.name))
        for e in self.entries:
            h = e.head
            if h[0] == "in" and (h[1] in ("*", alias)):
                for it in only_items:
                    if it.kind == h[2] and fnmatch.fnmatchcase(it.name or "", h[3]) and it.body:
                        txt = e.get("items")
                        txt = txt.replace("$SELF", it.selfty or "")
                        ed.insert(src.toks[it.body[0]].end, "\n" + txt.rstrip("\n") + "\n", "inject-items")
                        e.used = True
        for it in only_items:
            subs = []
            if it.kind == "fn":
                subs = [rsx.Fn(src, it, None)]
            elif it.kind in ("impl", "trait") and it.body:
                subs = [fns[(it.name + "::" + s.name)] for s in it.inner if s.kind == "fn"]
            for fn in subs:
                meta = dict(tags=[], drifted=False, origin=src.origin, line=src.line_of(fn.item.start),
                            sha=rsx.sha(src.text[fn.item.start:fn.item.end]), contract=False)
                loops = fn.loops()
                have_loop_entries = 0
                for e in self.entries:
                    h = e.head
                    if h[0] == "fn" and h[1] in ("*", alias) and fnmatch.fnmatchcase(fn.key, h[2]):
                        if getattr(e, "canary", None) and not fn.body:
                            continue
                        rsx.inject_fn(src, ed, fn, e)
                        meta["tags"] += re.findall(r"C\d+", e.get("tags"))
                        meta["contract"] = True
                        e.used = True
                    elif h[0] == "hint" and h[1] in ("*", alias) and fn.key == h[2]:
                        # @@ hint <alias> <fn key> before|after let|call <name> [#n]
                        n = int(h[6][1:]) if len(h) > 6 else 1
                        rsx.inject_hint(src, ed, fn, h[3], h[4], h[5], n, e)
                        e.used = True
                    elif h[0] == "loop" and h[1] in ("*", alias) and fnmatch.fnmatchcase(fn.key, h[2]):
                        rsx.inject_loop(src, ed, fn, h[3], e)
                        have_loop_entries += 0 if getattr(e, "canary", None) else 1
                        e.used = True
                if len(loops) != have_loop_entries:
                    meta["drifted"] = True
                    self.notes.append("fn %s: %d loops in source, %d loop contracts" % (
                        fn.key, len(loops), have_loop_entries))
                mkey = fn.key
                n = 2
                while mkey in self.fn_meta:
                    mkey = "%s~%d" % (fn.key, n)
                    n += 1
                self.fn_meta[mkey] = meta
                ed.insert(fn.item.start, "/*<fn:%s>*/" % mkey, "inject-marker")
                ed.insert(fn.item.end, "/*</fn:%s>*/" % mkey, "inject-marker")

    def assemble(self):
        self.load()
        self.apply_rewrites()
        # first pass over the template: which items are extracted from which source
        plan = []
        for line in self.template:
            if line.startswith("//@ item "):
                parts = line.split()
                alias, kind, name = parts[2], parts[3], parts[4]
                flags = parts[5:]
                it = self._find_item(alias, kind, name)
                plan.append(("item", alias, it, flags))
            elif line.startswith("//@ expand "):
                parts = line.split()
                plan.append(("expand", parts[2], parts[3], []))
            elif line.startswith("//@ stmt "):
                parts = line.split()
                alias, key, kind, name, n, mkey = parts[2], parts[3], parts[4], parts[5], int(parts[6][1:]), parts[7]
                fn = self._fn(alias, key)
                src = self.sources[alias]
                lo = rsx.stmt_anchor(src, fn, "before", kind, name, n)
                hi = rsx.stmt_anchor(src, fn, "after", kind, name, n)
                plan.append(("stmt", alias, (fn, lo, hi, mkey, "%s %s #%d" % (kind, name, n)), []))
            elif line.startswith("//@ source "):
                plan.append(("text", "// source %s" % line[11:], None, None))
            else:
                plan.append(("text", line, None, None))
        # inject contracts into first-stage items
        for alias in self.sources:
            its = [p[2] for p in plan if p[0] == "item" and p[1] == alias]
            src, ed = self.sources[alias], self.edits[alias]
            for p in plan:
                if p[0] == "item" and p[1] == alias:
                    if "strip_attrs" in p[3]:
                        rsx.strip_attrs(src, ed, p[2])
                    if "pub_fields" in p[3]:
                        rsx.pub_fields(src, ed, p[2])
                    for fl in p[3]:
                        if fl.startswith("only="):
                            keep = set(fl[5:].split(","))
                            for sub in getattr(p[2], "inner", []):
                                if sub.kind == "fn" and sub.name not in keep:
                                    ed.replace(sub.start, sub.end, "", "R14",
                                               "function of an extracted impl that is not under contract: dropped from the unit")
                            p[2].inner = [sub for sub in p[2].inner if not (sub.kind == "fn" and sub.name not in keep)]
            top, fns, conts = self.index[alias]
            self._inject_into(alias, src, ed, top, fns, its)
            for p in plan:
                if p[0] == "stmt" and p[1] == alias:
                    fn, lo, hi, mkey, what = p[2]
                    tags = []
                    for e in self.entries:
                        h = e.head
                        if h[0] == "hint" and h[1] in ("*", alias) and fn.key == h[2] and not getattr(e, "stmt_done", False) \
                                and not e.used:
                            # (a hint already attached by the extraction of the whole function is in the rendered text already)
                            n = int(h[6][1:]) if len(h) > 6 else 1
                            pos = rsx.stmt_anchor(src, fn, h[3], h[4], h[5], n)
                            if not (lo <= pos <= hi):
                                continue
                            e.stmt_done = True
                            rsx.inject_hint(src, ed, fn, h[3], h[4], h[5], n, e)
                            e.used = True
                    self.fn_meta[mkey] = dict(tags=tags, drifted=False, origin=src.origin, line=src.line_of(lo),
                                              sha=rsx.sha(src.text[lo:hi]), contract=True)
        # render
        out = []
        for p in plan:
            if p[0] == "text":
                out.append(p[1])
            elif p[0] == "item":
                alias, it = p[1], p[2]
                src, ed = self.sources[alias], self.edits[alias]
                self.items_log.append(dict(file=src.origin, kind=it.kind, name=it.name,
                                           line=src.line_of(it.start),
                                           sha256_16=rsx.sha(src.text[it.start:it.end])))
                out.append("// ---- extracted: %s %s (%s:%d)" % (it.kind, it.name, src.origin, src.line_of(it.start)))
                out.append(ed.render(it.start, it.end))
            elif p[0] == "stmt":
                alias = p[1]
                fn, lo, hi, mkey, what = p[2]
                src, ed = self.sources[alias], self.edits[alias]
                self.items_log.append(dict(file=src.origin, kind="statement", name="%s: %s" % (fn.key, what),
                                           line=src.line_of(lo), sha256_16=rsx.sha(src.text[lo:hi])))
                self.rewrite_log.append(dict(rule="R15", file=src.origin, line=src.line_of(lo),
                                             before="fn %s { .. <statement `%s`> .. }" % (fn.key, what),
                                             after="<the statement alone, inside the template's wrapper fn>",
                                             note="one statement extracted verbatim; the rest of the function is dropped; "
                                                  "the wrapper's parameters stand for the statement's free variables"))
                out.append("// ---- extracted statement: %s of fn %s (%s:%d)" % (what, fn.key, src.origin, src.line_of(lo)))
                out.append(ed.render(lo, hi))
            elif p[0] == "expand":
                alias, macro = p[1], p[2]
                src, ed = self.sources[alias], self.edits[alias]
                top = self.index[alias][0]
                mac = [it for it in top if it.kind == "macro_rules" and it.name == macro]
                calls = [it for it in top if it.kind == "macro_call" and it.name == macro]
                if len(mac) != 1 or not calls:
                    raise Drift("%s: macro %s / its invocations not found" % (src.origin, macro))
                mac = mac[0]
                self.items_log.append(dict(file=src.origin, kind="macro_rules", name=macro,
                                           line=src.line_of(mac.start),
                                           sha256_16=rsx.sha(src.text[mac.start:mac.end])))
                rendered = ed.render(mac.start, mac.end)
                msrc = rsx.Src(rendered, src.origin + "#macro " + macro)
                mitem = rsx.parse_items(msrc, 0, len(msrc.toks))[0]
                for c in calls:
                    arg = src.text[src.toks[c.body[0]].end:src.toks[c.body[1]].start].strip()
                    body = rsx.expand_macro(msrc, mitem, arg)
                    origin = "%s: expansion of %s!(%s) at line %d" % (src.origin, macro, arg, src.line_of(c.start))
                    self.rewrite_log.append(dict(rule="R6", file=src.origin, line=src.line_of(c.start),
                                                 before=src.text[c.start:c.end], after="<expansion of the macro body>",
                                                 note="macro_rules expansion for one ($t:ty) argument"))
                    xsrc = rsx.Src(body, origin)
                    xed = rsx.Edits(xsrc)
                    xtop, xfns, xconts = rsx.index_file(xsrc)
                    self._inject_into(alias, xsrc, xed, xtop, xfns, xtop)
                    out.append("// ---- %s" % origin)
                    out.append(xed.render(0, len(body)))
        for alias in self.sources:
            self.rewrite_log += self.edits[alias].log
        unused = [e for e in self.entries if not e.used]
        if unused:
            raise Drift("contract entries that no longer attach to anything: " + "; ".join(
                "%s:%d `@@ %s`" % (os.path.basename(e.path), e.lineno, " ".join(e.head)) for e in unused))
        self.text = "\n".join(out) + "\n"
        return self.text

    # ------------------------------------------------------------------
    def fn_at_line(self, text_lines_index, line):
        """Which extracted function (marker key) contains assembled-file line `line`."""
        best = None
        for key, (lo, hi) in text_lines_index.items():
            if lo <= line <= hi and (best is None or lo >= text_lines_index[best][0]):
                best = key
        return best

    def marker_index(self):
        idx = {}
        starts = {}
        for m in re.finditer(r"/\*<(/?)fn:([^>]+)>\*/", self.text):
            line = self.text.count("\n", 0, m.start()) + 1
            if m.group(1) == "":
                starts[m.group(2)] = line
            else:
                idx[m.group(2)] = (starts[m.group(2)], line)
        return idx

    def extraction_report(self):
        return dict(items=self.items_log, rewrites=self.rewrite_log, notes=self.notes,
                    functions={k: v for k, v in self.fn_meta.items()})


if __name__ == "__main__":
    import sys
    u = Unit(sys.argv[1], sys.argv[2] if len(sys.argv) > 2 else "/repo")
    sys.stdout.write(u.assemble())
    sys.stderr.write(json.dumps(u.extraction_report()["notes"], indent=1) + "\n")
