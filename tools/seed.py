#!/usr/bin/env python3
"""Seeded-change bookkeeping.

  seed.py confirm <seed dir name> <scratch worktree> "<demo command run from the worktree root>"
      In the scratch worktree (never /repo): demo WITH the patch must fail, WITHOUT it must pass, and the
      whole test suite must pass with the patch applied.  Writes seeded/<id>/confirm.json.
  seed.py eval <seed dir name> [<prop> ...]
      Applies seeded/<id>/patch.diff to /repo, runs ./check <prop> --tier quick for the properties named in
      meta.json (or given), undoes the patch (git checkout -- .), writes seeded/<id>/eval.json.
"""
import json
import os
import subprocess
import sys
import time

ROOT = os.path.dirname(os.path.dirname(os.path.abspath(__file__)))
REPO = "/repo"


def sh(cmd, cwd, timeout=3600, env=None):
    p = subprocess.run(cmd, shell=True, cwd=cwd, capture_output=True, text=True, timeout=timeout, env=env)
    return p.returncode, (p.stdout + p.stderr)


def confirm(sid, wt, demo_cmd):
    sdir = os.path.join(ROOT, "seeded", sid)
    patch = os.path.join(sdir, "patch.diff")
    res = {"worktree": wt, "demo_cmd": demo_cmd, "at": time.strftime("%Y-%m-%dT%H:%M:%SZ", time.gmtime())}
    assert os.path.abspath(wt) != REPO and not os.path.abspath(wt).startswith(ROOT)
    # clean state, then apply
    sh("git checkout -- . ", wt)
    rc, out = sh("git apply %s" % patch, wt)
    res["apply_rc"] = rc
    rc, out = sh(demo_cmd, wt)
    res["demo_with_patch_rc"] = rc
    res["demo_with_patch_tail"] = out[-1500:]
    sh("git checkout -- .", wt)
    rc, out = sh(demo_cmd, wt)
    res["demo_without_patch_rc"] = rc
    res["demo_without_patch_tail"] = out[-600:]
    sh("git apply %s" % patch, wt)
    rc, out = sh("cargo test --workspace --no-fail-fast --offline", wt, timeout=7200)
    passed = sum(int(l.split()[3]) for l in out.splitlines() if l.startswith("test result:"))
    failed = sum(int(l.split()[5]) for l in out.splitlines() if l.startswith("test result:"))
    res["suite_rc"] = rc
    res["suite_passed"] = passed
    res["suite_failed"] = failed
    res["confirmed"] = (res["apply_rc"] == 0 and res["demo_with_patch_rc"] != 0 and res["demo_without_patch_rc"] == 0
                        and rc == 0 and failed == 0 and passed >= 349)
    json.dump(res, open(os.path.join(sdir, "confirm.json"), "w"), indent=1)
    print(json.dumps({k: v for k, v in res.items() if not k.endswith("_tail")}, indent=1))


def evaluate(sid, props):
    sdir = os.path.join(ROOT, "seeded", sid)
    meta = json.load(open(os.path.join(sdir, "meta.json"))) if os.path.exists(os.path.join(sdir, "meta.json")) else {}
    props = props or meta.get("check_properties") or [meta.get("property")]
    rc, out = sh("git status --porcelain", REPO)
    if out.strip():
        print("refusing: /repo has uncommitted changes:\n" + out)
        return 2
    rc, out = sh("git apply %s" % os.path.join(sdir, "patch.diff"), REPO)
    if rc != 0:
        print("patch does not apply to /repo: " + out)
        return 2
    results = {}
    try:
        for p in props:
            t0 = time.time()
            # evidence of a run on a seeded tree goes next to the seed, never into /verif/evidence
            env = dict(os.environ, VERIF_EVIDENCE_DIR=os.path.join(sdir, "evidence"))
            rc, out = sh("./check %s --tier quick" % p, ROOT, timeout=7200, env=env)
            lines = [l for l in out.splitlines() if l.startswith(("VIOLATION", "PASS", "UNDECIDED", "KNOWN-FINDING", "failed obligation"))]
            results[p] = {"exit": rc, "lines": lines[:12], "wall_s": round(time.time() - t0, 1)}
            print(p, rc, lines[:4])
    finally:
        sh("git checkout -- .", REPO)
    rc, out = sh("git status --porcelain", REPO)
    assert not out.strip(), "repo not clean after eval"
    json.dump({"at": time.strftime("%Y-%m-%dT%H:%M:%SZ", time.gmtime()), "results": results},
              open(os.path.join(sdir, "eval.json"), "w"), indent=1)
    return 0


if __name__ == "__main__":
    if sys.argv[1] == "confirm":
        confirm(sys.argv[2], sys.argv[3], sys.argv[4])
    elif sys.argv[1] == "eval":
        sys.exit(evaluate(sys.argv[2], sys.argv[3:]))
