#!/usr/bin/env python3
"""U5: build /repo's lalrpop, generate parsers for units/gen/grammars in every variant, build the harness crate
against /repo's lalrpop-util and run the bounded exhaustive search (or replay one input)."""
import hashlib
import json
import os
import re
import shutil
import subprocess
import time


def _tag(repo):
    return hashlib.sha1(os.path.abspath(repo).encode()).hexdigest()[:8]


def build(root, repo, work, seed=0, tier="quick"):
    """-> (exe, cfg, error)"""
    udir = os.path.join(root, "units", "gen")
    cfg = json.load(open(os.path.join(udir, "unit.json")))
    env = dict(os.environ, CARGO_NET_OFFLINE="true")
    gen_target = os.path.join(root, "work", "gen-target", "lalrpop-" + _tag(repo))
    os.makedirs(gen_target, exist_ok=True)
    p = subprocess.run(["cargo", "build", "--offline", "-p", "lalrpop", "--bin", "lalrpop"], cwd=repo,
                       env=dict(env, CARGO_TARGET_DIR=gen_target), capture_output=True, text=True, timeout=3600)
    if p.returncode != 0:
        return None, cfg, "building /repo's lalrpop failed: " + p.stderr[-800:]
    lalrpop = os.path.join(gen_target, "debug", "lalrpop")
    crate = os.path.join(work, "crate")
    shutil.rmtree(crate, ignore_errors=True)
    shutil.copytree(os.path.join(udir, "crate"), crate, ignore=shutil.ignore_patterns("target", "Cargo.toml", "Cargo.lock"))
    tin = open(os.path.join(udir, "crate", "Cargo.toml.in")).read()
    open(os.path.join(crate, "Cargo.toml"), "w").write(tin.replace("@REPO@", os.path.abspath(repo)))
    shutil.copy(os.path.join(repo, "Cargo.lock"), os.path.join(crate, "Cargo.lock"))
    gdir = os.path.join(crate, "src", "gen")
    os.makedirs(gdir)
    mods, disp_all, disp_one = [], [], []
    for v in cfg["variants"]:
        g = cfg["grammars"][v["grammar"]]
        text = open(os.path.join(udir, "grammars", g.get("file", v["grammar"]) + ".lalrpop")).read().replace("@ATTRS@", v["attrs"])
        src = os.path.join(gdir, v["name"] + ".lalrpop")
        open(src, "w").write(text)
        e = dict(env)
        e.pop("LALRPOP_LANE_TABLE", None)
        e.update(v.get("env", {}))
        q = subprocess.run([lalrpop, "--force", "--level", "quiet", src], cwd=gdir, env=e, capture_output=True, text=True, timeout=600)
        if q.returncode != 0 or not os.path.exists(os.path.join(gdir, v["name"] + ".rs")):
            return None, cfg, "lalrpop failed on grammar variant %s: %s" % (v["name"], (q.stdout + q.stderr)[-600:])
        mods.append('#[allow(warnings)] #[path = "gen/%s.rs"] mod %s;' % (v["name"], v["name"]))
        alpha = "&[%s]" % ", ".join(g["alphabet"])
        if g["check"] == "plain":
            call = 'check_plain(rep, "%s", &%s(), seq, &|st| %s::%s::new().parse(st).map(|_| ()))' % (v["name"], g["oracle"], v["name"], g["parser"])
        elif g["check"] == "fallible":
            call = 'check_fallible(rep, "%s", &%s(), seq, &|log, st| %s::%s::new().parse(log, st))' % (v["name"], g["oracle"], v["name"], g["parser"])
        elif g["check"] == "recfallible":
            call = 'check_recfallible(rep, "%s", seq, &|log, st| %s::%s::new().parse(log, st))' % (v["name"], v["name"], g["parser"])
        else:
            call = 'check_recovery(rep, "%s", &%s, seq, &|st| %s::%s::new().parse(st))' % (v["name"], g.get("oracle") or "g_stmts", v["name"], g["parser"])
        disp_all.append('    { let lens = LENS_%s; for_all(%s, if n == 0 { lens.0 } else { lens.1 }, &mut |seq: &[Tok]| { %s; }); }' % (v["grammar"].upper(), alpha, call))
        disp_one.append('        "%s" => { %s; }' % (v["name"], call))
    lex_all, lex_one = [], []
    for v in cfg.get("lexvariants", []):
        shutil.copy(os.path.join(udir, "lexgrammars", v["name"] + ".lalrpop"), os.path.join(gdir, v["name"] + ".lalrpop"))
        e = dict(env)
        e.pop("LALRPOP_LANE_TABLE", None)
        q = subprocess.run([lalrpop, "--force", "--level", "quiet", os.path.join(gdir, v["name"] + ".lalrpop")], cwd=gdir, env=e,
                           capture_output=True, text=True, timeout=600)
        if q.returncode != 0 or not os.path.exists(os.path.join(gdir, v["name"] + ".rs")):
            return None, cfg, "lalrpop failed on lexer grammar %s: %s" % (v["name"], (q.stdout + q.stderr)[-600:])
        mods.append('#[allow(warnings)] #[path = "gen/%s.rs"] mod %s;' % (v["name"], v["name"]))
        call = 'check_lexer(rep, "%s", &%s(), text, &|log, t| %s::SParser::new().parse(log, t))' % (v["name"], v["spec"], v["name"])
        lex_all.append('    for_all_text(LEX_ALPHA, if n == 0 { %d } else { %d }, &mut |text: &str| { %s; });' % (cfg["lex_len_quick"], cfg["lex_len_thorough"], call))
        lex_one.append('        "%s" => { %s; }' % (v["name"], call))
    # seeded random grammars
    renv = dict(env)
    renv.pop("LALRPOP_LANE_TABLE", None)
    rnd = random_grammars(seed, cfg.get("random_grammars_thorough", 40) if tier == "thorough" else cfg.get("random_grammars_quick", 12), lalrpop, gdir, renv)
    oracle_fns = []
    for g in rnd:
        prods = ", ".join("(%d, vec![%s])" % (l, ", ".join(("T(%d)" % RND_TERMS[v][2]) if k == "T" else ("N(%d)" % v) for (k, v) in r)) for (l, r) in g["prods"])
        oracle_fns.append("fn g_%s() -> Grammar { use Sym::*; Grammar { start: 0, prods: vec![%s] } }" % (g["name"], prods))
        alpha = "&[%s]" % ", ".join(RND_TERMS[v][1] for v in g["terms"])
        for suffix in ("lane", "ascent"):
            vn = "%s_%s" % (g["name"], suffix)
            mods.append('#[allow(warnings)] #[path = "gen/%s.rs"] mod %s;' % (vn, vn))
            call = 'check_plain(rep, "%s", &g_%s(), seq, &|st| %s::N0Parser::new().parse(st).map(|_| ()))' % (vn, g["name"], vn)
            disp_all.append('    for_all(%s, if n == 0 { %d } else { %d }, &mut |seq: &[Tok]| { %s; });' % (alpha, cfg.get("random_len_quick", 4), cfg.get("random_len_thorough", 5), call))
            disp_one.append('        "%s" => { %s; }' % (vn, call))
    cfg["_random"] = [dict(name=g["name"], grammar=g["text"]) for g in rnd]
    rdec = random_decorated(seed, cfg.get("random_decorated_thorough", 20) if tier == "thorough" else cfg.get("random_decorated_quick", 6), lalrpop, gdir, renv, rnd)
    for g in rdec:
        oracle_fns.append(g["oracle"])
        alpha = "&[%s]" % ", ".join(RND_TERMS[v][1] for v in g["terms"])
        for suffix in ("lane", "ascent"):
            vn = "%s_%s" % (g["name"], suffix)
            mods.append('#[allow(warnings)] #[path = "gen/%s.rs"] mod %s;' % (vn, vn))
            call = 'check_plain(rep, "%s", &g_%s(), seq, &|st| %s::N0Parser::new().parse(st).map(|_| ()))' % (vn, g["name"], vn)
            disp_all.append('    for_all(%s, if n == 0 { %d } else { %d }, &mut |seq: &[Tok]| { %s; });' % (alpha, cfg.get("random_len_quick", 4), cfg.get("random_len_thorough", 5), call))
            disp_one.append('        "%s" => { %s; }' % (vn, call))
    cfg["_random_decorated"] = [dict(name=g["name"], grammar=g["text"]) for g in rdec]
    rlex = random_lexers(seed, cfg.get("random_lexers_thorough", 16) if tier == "thorough" else cfg.get("random_lexers_quick", 6), lalrpop, gdir, renv)
    for g in rlex:
        mods.append('#[allow(warnings)] #[path = "gen/%s.rs"] mod %s;' % (g["name"], g["name"]))
        oracle_fns.append(g["spec"])
        call = 'check_lexer(rep, "%s", &spec_%s(), text, &|log, t| %s::SParser::new().parse(log, t))' % (g["name"], g["name"], g["name"])
        lex_all.append('    for_all_text(LEX_ALPHA, if n == 0 { %d } else { %d }, &mut |text: &str| { %s; });' % (cfg["lex_len_quick"], cfg["lex_len_thorough"], call))
        lex_one.append('        "%s" => { %s; }' % (g["name"], call))
    cfg["_random_lexers"] = [dict(name=g["name"], grammar=g["text"]) for g in rlex]
    open(os.path.join(crate, "src", "generated_mods.rs"), "w").write("\n".join(mods) + "\n")
    lens = "\n".join("const LENS_%s: (usize, usize) = (%d, %d);" % (k.upper(), g["len_quick"], g["len_thorough"]) for k, g in cfg["grammars"].items())
    open(os.path.join(crate, "src", "generated_dispatch.rs"), "w").write(
        "\n".join(oracle_fns) + "\n" + lens + "\n/// n == 0: quick bounds, otherwise thorough bounds\nfn run_all(rep: &mut Report, n: usize) {\n" + "\n".join(disp_all) +
        "\n}\nfn run_variant(rep: &mut Report, name: &str, seq: &[Tok]) {\n    match name {\n" + "\n".join(disp_one) +
        '\n        _ => panic!("unknown variant"),\n    }\n}\n' +
        "fn run_lex_all(rep: &mut Report, n: usize) {\n" + "\n".join(lex_all) + "\n}\n" +
        "fn run_lex_variant(rep: &mut Report, name: &str, text: &str) {\n    match name {\n" + "\n".join(lex_one) +
        '\n        _ => panic!("unknown variant"),\n    }\n}\n')
    target = os.path.join(root, "work", "gen-target", "harness-" + _tag(repo))
    p = subprocess.run(["cargo", "build", "--offline"], cwd=crate, env=dict(env, CARGO_TARGET_DIR=target), capture_output=True, text=True, timeout=3600)
    if p.returncode != 0:
        return None, cfg, "harness build failed (generated code does not compile?): " + p.stderr[-1500:]
    cfg["_lalrpop"] = lalrpop
    return os.path.join(target, "debug", "gen_native"), cfg, None


# ---------------------------------------------------------------------------------------------------------------
# C11 end to end (bounded): for every pair of regex terminals from a small pool, lalrpop must report
# "ambiguity detected" exactly when some string over the alphabet (up to max_len) is matched by both.
# ---------------------------------------------------------------------------------------------------------------
AMBIG_GRAMMAR = """grammar;
pub S: () = { A => (), B => () };
A: () = { r#"%s"# => () };
B: () = { r#"%s"# => () };
"""
# the same two regexes in one rung of a match block (equal precedence) / in two rungs (the first wins: never ambiguous)
AMBIG_SAME_RUNG = """grammar;
match { r#"%s"# => TA, r#"%s"# => TB }
pub S: () = { TA => (), TB => () };
"""
AMBIG_TWO_RUNGS = """grammar;
match { r#"%s"# => TA } else { r#"%s"# => TB }
pub S: () = { TA => (), TB => () };
"""
# three terminals accepting in one DFA state: the tied (or not) pair on the upper rung, a catch-all of strictly lower
# precedence below it; the third terminal must not change the verdict.  And three rungs: never ambiguous.
AMBIG_PAIR_OVER_LOWER = """grammar;
match { r#"%s"# => TA, r#"%s"# => TB } else { r#"%s"# => TC }
pub S: () = { TA => (), TB => (), TC => () };
"""
AMBIG_THREE_RUNGS = """grammar;
match { r#"%s"# => TC } else { r#"%s"# => TA } else { r#"%s"# => TB }
pub S: () = { TA => (), TB => (), TC => () };
"""
# a quoted literal against a regex: the literal has higher precedence, never ambiguous
AMBIG_LITERAL = """grammar;
pub S: () = { A => (), B => () };
A: () = { "%s" => () };
B: () = { r#"%s"# => () };
"""


def _strings(alpha, max_len):
    out = [""]
    frontier = [""]
    for _ in range(max_len):
        frontier = [s + c for s in frontier for c in alpha]
        out += frontier
    return out


def ambig_pairs(cfg):
    import re as _re
    a = cfg["ambig"]
    pool = a["pool"]
    strs = [s for s in _strings(a["alphabet"], a["max_len"]) if s]
    lang = [set(s for s in strs if _re.fullmatch(p, s)) for p in pool]
    for i in range(len(pool)):
        for j in range(i + 1, len(pool)):
            common = sorted(lang[i] & lang[j], key=lambda s: (len(s), s))
            yield i, j, pool[i], pool[j], (common[0] if common else None)


# ---- seeded random regex pairs with an EXACT oracle (product of two small NFAs built from the generator's own AST) ----
RX_ALPHA = ["d", "e", "x", "\u00e9", "\u00e8"]
RX_OTHER = "z"          # stands for every character outside RX_ALPHA (only negated classes match it)
RX_ATOMS = [("lit", "d"), ("lit", "e"), ("lit", "x"), ("lit", "\u00e9"), ("cls", "de", False), ("cls", "ex", False),
            ("cls", "e", True), ("cls", "\u00e8\u00e9", False), ("cls", "dx\u00e9", False),
            ("rng", "d-e", "de"), ("rng", "d-ex", "dex"), ("rng", "\u00e8-\u00e9", "\u00e8\u00e9"), ("rng", "^d-e", None), ("any",)]
RX_REPS = [None, None, None, (0, 1), (0, None), (1, None), (2, 2), (2, None), (1, 2), (3, None), (2, 3), (0, 2), (0, 3), (1, 3)]


def _rx_text(n, top=True):
    k = n[0]
    if k == "lit":
        return n[1]
    if k == "cls":
        return "[%s%s]" % ("^" if n[2] else "", n[1])
    if k == "rng":
        return "[%s]" % n[1]
    if k == "any":
        return "."
    if k == "cat":
        return "".join(_rx_text(c, False) for c in n[1])
    if k == "alt":
        return "(?:%s)" % "|".join(_rx_text(c, False) for c in n[1])
    if k == "rep":
        inner = _rx_text(n[1], False)
        if n[1][0] == "cat":
            inner = "(?:%s)" % inner
        lo, hi = n[2], n[3]
        suf = {(0, 1): "?", (0, None): "*", (1, None): "+"}.get((lo, hi))
        if suf is None:
            suf = "{%d}" % lo if lo == hi else ("{%d,}" % lo if hi is None else "{%d,%d}" % (lo, hi))
        return inner + suf
    raise ValueError(k)


def _rx_random(rng):
    def rep(node):
        r = rng.choice(RX_REPS)
        return node if r is None else ("rep", node, r[0], r[1])

    def seq():
        n = rng.choice([1, 1, 2, 2, 3])
        parts = [rep(rng.choice(RX_ATOMS)) for _ in range(n)]
        return parts[0] if n == 1 else ("cat", parts)
    t = rng.random()
    if t < 0.55:
        return seq()
    if t < 0.8:
        return rep(("alt", [seq(), seq()]))
    return ("cat", [rep(("alt", [seq(), seq()])), rep(rng.choice(RX_ATOMS))])


class _Nfa:
    def __init__(self):
        self.eps, self.edges, self.n = {}, {}, 0

    def new(self):
        self.n += 1
        return self.n - 1

    def build(self, node, a, b):
        """thread `node` between states a and b"""
        k = node[0]
        if k in ("lit", "cls", "rng", "any"):
            syms = set(RX_ALPHA + [RX_OTHER])
            if k == "lit":
                m = {node[1]}
            elif k == "any":
                m = syms            # `.`: every character except a line feed, which RX_OTHER does not stand for here
            elif k == "rng":
                m = set(node[2]) if node[2] is not None else syms - set("de")
            else:
                m = set(node[1])
                m = (syms - m) if node[2] else m
            for c in m:
                self.edges.setdefault((a, c), set()).add(b)
        elif k == "cat":
            cur = a
            for i, c in enumerate(node[1]):
                nxt = b if i == len(node[1]) - 1 else self.new()
                self.build(c, cur, nxt)
                cur = nxt
        elif k == "alt":
            for c in node[1]:
                self.build(c, a, b)
        elif k == "rep":
            lo, hi = node[2], node[3]
            cur = a
            for _ in range(lo):
                nxt = self.new()
                self.build(node[1], cur, nxt)
                cur = nxt
            if hi is None:
                loop = self.new()
                self.eps.setdefault(cur, set()).add(loop)
                self.build(node[1], loop, loop)
                self.eps.setdefault(loop, set()).add(b)
            else:
                self.eps.setdefault(cur, set()).add(b)
                for _ in range(hi - lo):
                    nxt = self.new()
                    self.build(node[1], cur, nxt)
                    self.eps.setdefault(nxt, set()).add(b)
                    cur = nxt

    def close(self, states):
        st, todo = set(states), list(states)
        while todo:
            q = todo.pop()
            for r in self.eps.get(q, ()):
                if r not in st:
                    st.add(r)
                    todo.append(r)
        return frozenset(st)

    def step(self, states, c):
        out = set()
        for q in states:
            out |= self.edges.get((q, c), set())
        return self.close(out)


def _rx_automaton(node):
    m = _Nfa()
    a, b = m.new(), m.new()
    m.build(node, a, b)
    return m, m.close([a]), b


def _rx_shortest_common(n1, n2):
    """shortest NON-EMPTY string matched by both (None if the languages share no non-empty string): exact, by BFS on the product"""
    (m1, s1, f1), (m2, s2, f2) = _rx_automaton(n1), _rx_automaton(n2)
    seen = {(s1, s2)}
    frontier = [((s1, s2), "")]
    while frontier:
        nxt = []
        for ((p, q), w) in frontier:
            for c in RX_ALPHA + [RX_OTHER]:
                p2, q2 = m1.step(p, c), m2.step(q, c)
                if not p2 or not q2:
                    continue
                if f1 in p2 and f2 in q2:
                    return w + c
                if (p2, q2) not in seen:
                    seen.add((p2, q2))
                    nxt.append(((p2, q2), w + c))
        frontier = nxt
    return None


def _rx_nullable(node):
    m, s, f = _rx_automaton(node)
    return f in s


def rx_pairs(seed, n):
    """n seeded random regexes (none matching the empty string), all pairs: (i, j, text_i, text_j, witness or None)"""
    import random
    import re as _re
    rng = random.Random(7919 * (seed + 1))
    nodes, texts = [], []
    guard = 0
    while len(nodes) < n and guard < 1000:
        guard += 1
        nd = _rx_random(rng)
        tx = _rx_text(nd)
        if tx in texts or _rx_nullable(nd) or len(tx) > 24:
            continue
        nodes.append(nd)
        texts.append(tx)
    for i in range(len(nodes)):
        for j in range(i + 1, len(nodes)):
            w = _rx_shortest_common(nodes[i], nodes[j])
            if w is not None:
                # self-check of the oracle against Python's regex engine
                assert _re.fullmatch(texts[i], w) and _re.fullmatch(texts[j], w), (texts[i], texts[j], w)
            yield i, j, texts[i], texts[j], w


def _ambig_cases(cfg, seed=0, tier="quick"):
    """(id, grammar text, description, witness or None, equal precedence?)"""
    import re as _re
    a = cfg["ambig"]
    strs = [x for x in _strings(a["alphabet"], a["max_len"]) if x]
    for (i, j, p1, p2, witness) in ambig_pairs(cfg):
        yield ("%d:%d" % (i, j), AMBIG_GRAMMAR % (p1, p2), 'terminals r"%s" and r"%s"' % (p1, p2), witness, True)
    # match-block forms on a subset of the pairs (every third pair, both kinds of verdict occur)
    for n, (i, j, p1, p2, witness) in enumerate(ambig_pairs(cfg)):
        if n % 3 == 0:
            yield ("%d:%d:same" % (i, j), AMBIG_SAME_RUNG % (p1, p2), 'r"%s" and r"%s" in one match rung' % (p1, p2), witness, True)
            yield ("%d:%d:two" % (i, j), AMBIG_TWO_RUNGS % (p1, p2), 'r"%s" and r"%s" in two match rungs' % (p1, p2), witness, False)
    catch_all = "[%s]+" % "".join(a["alphabet"])
    for n, (i, j, p1, p2, witness) in enumerate(ambig_pairs(cfg)):
        if n % 3 == 1:
            yield ("%d:%d:lower" % (i, j), AMBIG_PAIR_OVER_LOWER % (p1, p2, catch_all),
                   'r"%s" and r"%s" in one match rung above a lower-precedence r"%s"' % (p1, p2, catch_all), witness, True)
        if n % 6 == 2:
            yield ("%d:%d:three" % (i, j), AMBIG_THREE_RUNGS % (catch_all, p1, p2),
                   'r"%s", r"%s" and r"%s" in three match rungs' % (catch_all, p1, p2), witness, False)
    for li, lit in enumerate(a.get("literals", [])):
        for j, p2 in enumerate(a["pool"]):
            w = lit if _re.fullmatch(p2, lit) else None
            yield ("lit%d:%d" % (li, j), AMBIG_LITERAL % (lit, p2), 'literal "%s" and r"%s"' % (lit, p2), w, False)
    nrx = a.get("random_regexes_thorough", 16) if tier == "thorough" else a.get("random_regexes_quick", 8)
    for (i, j, p1, p2, witness) in rx_pairs(seed, nrx):
        yield ("r%d_%d:%d:%d" % (seed, nrx, i, j), AMBIG_GRAMMAR % (p1, p2), 'random terminals r"%s" and r"%s"' % (p1, p2), witness, True)


def run_ambig(root, repo, cfg, lalrpop, work, only=None, seed=0, tier="quick"):
    """-> (number of grammars run, list of failure dicts)"""
    if only is not None and re.match(r"^r\d+_\d+:", only):
        # a random-regex case carries its own generator parameters: r<seed>_<count>:i:j
        seed, cnt = [int(x) for x in only[1:].split(":")[0].split("_")]
        cfg = dict(cfg, ambig=dict(cfg["ambig"], random_regexes_quick=cnt, random_regexes_thorough=cnt))
    gdir = os.path.join(work, "ambig")
    os.makedirs(gdir, exist_ok=True)
    env = dict(os.environ)
    env.pop("LALRPOP_LANE_TABLE", None)
    n, fails = 0, []
    for (cid, text, desc, witness, equal) in _ambig_cases(cfg, seed, tier):
        if only is not None and only != cid:
            continue
        src = os.path.join(gdir, "amb_%s.lalrpop" % cid.replace(":", "_"))
        open(src, "w").write(text)
        q = subprocess.run([lalrpop, "--force", "--level", "quiet", src], cwd=gdir, env=env, capture_output=True, text=True, timeout=120)
        out = q.stdout + q.stderr
        n += 1
        reported = "ambiguity detected" in out
        expect = equal and witness is not None
        if q.returncode != 0 and not reported:
            fails.append(dict(pair=cid, msg="%s: lalrpop failed with something other than an ambiguity report: %s" % (desc, out[-300:])))
        elif expect and not reported:
            fails.append(dict(pair=cid, msg="%s (equal precedence) both match %r but the grammar was accepted" % (desc, witness)))
        elif not expect and reported:
            why = ("match no common string (all strings up to length %d over %s)" % (cfg["ambig"]["max_len"], "".join(cfg["ambig"]["alphabet"]))) if witness is None else "have different precedence"
            fails.append(dict(pair=cid, msg="%s %s but lalrpop reported: %s" % (desc, why, out.strip()[-200:])))
    return n, fails


# ---------------------------------------------------------------------------------------------------------------
# random small grammars (seeded): widen the grammar shapes U5 sees beyond the hand-written ones
# ---------------------------------------------------------------------------------------------------------------
RND_TERMS = [("a", "Tok::A", 6), ("b", "Tok::B", 7), ("c", "Tok::C", 8), ("d", "Tok::D", 9), ("e", "Tok::E", 10), ("p", "Tok::P", 11)]
RND_HEADER = """use crate::common::{Tok, MyErr};
@ATTRS@
grammar;
extern {
    type Location = usize;
    type Error = MyErr;
    enum Tok { "a" => Tok::A, "b" => Tok::B, "c" => Tok::C, "d" => Tok::D, "e" => Tok::E, "p" => Tok::P }
}
"""


def _random_grammar(rng):
    nn = rng.randint(2, 4)
    nt = rng.randint(3, 5)
    prods = []
    for lhs in range(nn):
        for _ in range(rng.randint(1, 3)):
            rhs = []
            for _ in range(rng.choice([0, 1, 1, 2, 2, 2, 3, 3])):
                if rng.random() < 0.45:
                    rhs.append(("N", rng.randrange(nn)))
                else:
                    rhs.append(("T", rng.randrange(nt)))
            if (lhs, rhs) not in prods:
                prods.append((lhs, rhs))
    # productive / reachable
    productive = set()
    changed = True
    while changed:
        changed = False
        for (l, r) in prods:
            if l not in productive and all(k == "T" or v in productive for (k, v) in r):
                productive.add(l)
                changed = True
    reach = {0}
    changed = True
    while changed:
        changed = False
        for (l, r) in prods:
            if l in reach:
                for (k, v) in r:
                    if k == "N" and v not in reach:
                        reach.add(v)
                        changed = True
    if productive != set(range(nn)) or reach != set(range(nn)):
        return None
    used = sorted(set(v for (_, r) in prods for (k, v) in r if k == "T"))
    if len(used) < 2:
        return None
    return nn, prods, used


# ---------------------------------------------------------------------------------------------------------------
# random built-in-lexer grammars (seeded): match blocks of 1-3 rungs over a pool of literals, regexes and skip rules,
# `_` in a random rung (or none), extra terminals used only in the grammar.  The reference tokenizer's specification
# (rung, literal?, skip?) is derived from the SAME random choices by the documented rules, not from lalrpop's output.
# ---------------------------------------------------------------------------------------------------------------
RLEX_LITS = ["if", "fi", "+", "x", "i", "1", "#", "xx", ".", "(", "*", "(*", "i.", "\u00e9", "\u00e9x", "i\u00e9"]
RLEX_RES = [("ID", "[a-z]+"), ("NUM", "[0-9]+"), ("WORD", "[a-z0-9]+"), ("LETTER", "[a-z]"), ("IS", "i+"), ("FX", "[fx]x?"),
            ("ACC", "é+"), ("DIG", "[12]"), ("PLUSES", r"\++")]
RLEX_SKIPS = [" +", r"\t", "#[a-z0-9 +]*", r"[ \t]+", "#"]


def _random_lexer(rng):
    nr = rng.choice([1, 1, 2, 2, 3])
    lits = rng.sample(RLEX_LITS, rng.randint(1, 3))
    res = rng.sample(RLEX_RES, rng.randint(1, 3))
    skips = rng.sample(RLEX_SKIPS, rng.choice([0, 0, 1, 1, 2]))
    catch = rng.choice([None] + list(range(nr)))          # rung holding `_`
    rungs = [[] for _ in range(nr)]
    for l in lits:
        rungs[rng.randrange(nr)].append(("lit", l))
    for (n, r) in res:
        rungs[rng.randrange(nr)].append(("re", n, r))
    for sk in skips:
        rungs[rng.randrange(nr)].append(("skip", sk))
    extra = []
    if catch is not None:
        el = [l for l in RLEX_LITS if l not in lits]
        er = [x for x in RLEX_RES if x not in res]
        extra = [("lit", l) for l in rng.sample(el, rng.randint(0, 2))] + [("re", n, r) for (n, r) in rng.sample(er, rng.randint(0, 1))]
    if any(not r for i, r in enumerate(rungs) if i != catch):
        return None
    spec, alts, lines = [], [], []
    for i, r in enumerate(rungs):
        items = []
        for e in r:
            if e[0] == "lit":
                items.append('"%s"' % e[1])
                spec.append((e[1], True, e[1], i, False))
                alts.append(('"%s"' % e[1], e[1]))
            elif e[0] == "re":
                if rng.random() < 0.3:
                    # renaming to a quoted name: the grammar then says "K_ID", a name no text matches literally
                    q = "K_" + e[1]
                    items.append('r#"%s"# => "%s"' % (e[2], q))
                    spec.append((q, False, e[2], i, False))
                    alts.append(('"%s"' % q, q))
                else:
                    items.append('r#"%s"# => %s' % (e[2], e[1]))
                    spec.append((e[1], False, e[2], i, False))
                    alts.append((e[1], e[1]))
            else:
                items.append('r#"%s"# => { }' % e[1])
                spec.append(("", False, e[1], i, True))
        if catch == i:
            items.append("_")
        lines.append("{ " + ", ".join(items) + " }")
    for e in extra:
        if e[0] == "lit":
            spec.append((e[1], True, e[1], catch, False))
            alts.append(('"%s"' % e[1], e[1]))
        else:
            spec.append((e[1], False, e[2], catch, False))
            alts.append(('r#"%s"#' % e[2], e[1]))
    if not skips:
        spec.insert(0, ("", False, r"\s+", -1, True))     # "the implicit \s+ skip above all when no skip rule exists"
    text = "grammar(log: &mut Vec<(usize, &'static str, String, usize)>);\nmatch " + " else ".join(lines) + "\n"
    text += "pub S: () = { T* => () };\nT: () = {\n"
    for (term, name) in alts:
        text += '    <l:@L> <t:%s> <r:@R> => log.push((l, "%s", t.to_string(), r)),\n' % (term, name.replace('"', '\\"'))
    text += "};\n"
    return text, spec


def random_lexers(seed, want, lalrpop, gdir, env):
    import random
    rng = random.Random(15485863 * (seed + 1))
    out, tries = [], 0
    while len(out) < want and tries < 40 * want:
        tries += 1
        g = _random_lexer(rng)
        if g is None:
            continue
        text, spec = g
        name = "rlex%d" % len(out)
        src = os.path.join(gdir, name + ".lalrpop")
        open(src, "w").write(text)
        q = subprocess.run([lalrpop, "--force", "--level", "quiet", src], cwd=gdir, env=env, capture_output=True, text=True, timeout=300)
        if q.returncode != 0 or not os.path.exists(os.path.join(gdir, name + ".rs")):
            os.remove(src)            # ambiguous terminals, unused-terminal errors, ..: not a grammar lalrpop accepts
            continue
        rust = "fn spec_%s() -> Vec<TermSpec> { vec![\n%s ] }" % (name, "\n".join(
            '    TermSpec { name: "%s", lit: %s, pat: r#"%s"#, rung: %d, skip: %s },' % (
                n.replace('"', '\\"'), "true" if lit else "false", pat, rung, "true" if sk else "false") for (n, lit, pat, rung, sk) in spec))
        out.append(dict(name=name, text=text, spec=rust))
    return out


def _random_decorated(rng, base):
    """a random grammar (one lalrpop accepts as it is) whose symbols now carry `?` / `*` / `+` and whose non-recursive
    nonterminals may be `#[inline]`; -> (grammar body text, expanded plain productions for the oracle, terminals used)"""
    prods, used = base["prods"], base["terms"]
    nn = 1 + max(l for (l, r) in prods)
    # reachability of each nonterminal from itself (inline is only legal on non-recursive nonterminals)
    succ = {n: set(v for (l, r) in prods if l == n for (k, v) in r if k == "N") for n in range(nn)}
    def recursive(n):
        seen, todo = set(), list(succ[n])
        while todo:
            m = todo.pop()
            if m == n:
                return True
            if m not in seen:
                seen.add(m)
                todo += list(succ[m])
        return False
    inline = set(n for n in range(1, nn) if not recursive(n) and rng.random() < 0.4)
    deco = [[(k, v, rng.choice(["", "", "", "", "?", "*", "+"])) for (k, v) in r] for (l, r) in prods]
    fresh, extra, nxt = {}, [], [nn]
    def sym_of(k, v, suf):
        base = ("T", RND_TERMS[v][2]) if k == "T" else ("N", v)
        if not suf:
            return base
        key = (k, v, suf)
        if key not in fresh:
            f = nxt[0]
            nxt[0] += 1
            fresh[key] = f
            if suf == "?":
                extra.append((f, []))
                extra.append((f, [base]))
            elif suf == "*":
                extra.append((f, []))
                extra.append((f, [("N", f), base]))
            else:
                extra.append((f, [base]))
                extra.append((f, [("N", f), base]))
        return ("N", fresh[key])
    plain = []
    body = []
    for n in range(nn):
        alts = []
        for (pi, (l, r)) in enumerate(prods):
            if l == n:
                alts.append("    " + " ".join((('"%s"' % RND_TERMS[v][0]) if k == "T" else ("N%d" % v)) + suf for (k, v, suf) in deco[pi]) + " => (),")
                plain.append((l, [sym_of(k, v, suf) for (k, v, suf) in deco[pi]]))
        body.append("%s%sN%d: () = {\n%s\n};" % ("#[inline] " if n in inline else "", "pub " if n == 0 else "", n, "\n".join(alts)))
    return "\n".join(body) + "\n", plain + extra, used


def random_decorated(seed, want, lalrpop, gdir, env, bases):
    """-> list of dict(name, oracle (Rust fn text), terms, text) for decorated versions of the accepted random grammars
    `bases` that lalrpop accepts too (lane table and recursive ascent); at most 4 attempts per base grammar"""
    import random
    rng = random.Random(32452843 * (seed + 1))
    out, tries = [], 0
    while len(out) < want and tries < 4 * len(bases) and bases:
        base = bases[tries % len(bases)]
        tries += 1
        body, plain, used = _random_decorated(rng, base)
        if all(not suf for alt in body.split("=> (),") for suf in ()) and ("?" not in body and "*" not in body and "+" not in body and "#[inline]" not in body):
            continue          # nothing was decorated: it would duplicate the base grammar
        text = RND_HEADER + body
        name = "rdec%d" % len(out)
        ok = True
        for (suffix, attrs) in (("lane", ""), ("ascent", "#[recursive_ascent]")):
            src = os.path.join(gdir, "%s_%s.lalrpop" % (name, suffix))
            open(src, "w").write(text.replace("@ATTRS@", attrs))
            q = subprocess.run([lalrpop, "--force", "--level", "quiet", src], cwd=gdir, env=env, capture_output=True, text=True, timeout=120)
            if q.returncode != 0 or not os.path.exists(src[:-8] + ".rs"):
                ok = False
                break
        if not ok:
            for suffix in ("lane", "ascent"):
                for ext in (".lalrpop", ".rs"):
                    try:
                        os.remove(os.path.join(gdir, "%s_%s%s" % (name, suffix, ext)))
                    except OSError:
                        pass
            continue
        prods = ", ".join("(%d, vec![%s])" % (l, ", ".join(("T(%d)" % v) if k == "T" else ("N(%d)" % v) for (k, v) in r)) for (l, r) in plain)
        oracle = "fn g_%s() -> Grammar { use Sym::*; Grammar { start: 0, prods: vec![%s] } }" % (name, prods)
        out.append(dict(name=name, oracle=oracle, terms=used, text=text))
    return out


def random_grammars(seed, want, lalrpop, gdir, env):
    """-> list of dict(name, prods, terms) for grammars the DEFAULT configuration of lalrpop accepts"""
    import random
    rng = random.Random(1000003 * (seed + 1))
    out = []
    tries = 0
    while len(out) < want and tries < want * 40:
        tries += 1
        g = _random_grammar(rng)
        if g is None:
            continue
        nn, prods, used = g
        body = []
        for n in range(nn):
            alts = []
            for (l, r) in prods:
                if l == n:
                    alts.append("    " + " ".join(('"%s"' % RND_TERMS[v][0]) if k == "T" else ("N%d" % v) for (k, v) in r) + " => (),")
            body.append("%sN%d: () = {\n%s\n};" % ("pub " if n == 0 else "", n, "\n".join(alts)))
        text = RND_HEADER + "\n".join(body) + "\n"
        name = "rnd%d" % len(out)
        ok = True
        for (suffix, attrs) in (("lane", ""), ("ascent", "#[recursive_ascent]")):
            src = os.path.join(gdir, "%s_%s.lalrpop" % (name, suffix))
            open(src, "w").write(text.replace("@ATTRS@", attrs))
            q = subprocess.run([lalrpop, "--force", "--level", "quiet", src], cwd=gdir, env=env, capture_output=True, text=True, timeout=120)
            if q.returncode != 0 or not os.path.exists(src[:-8] + ".rs"):
                ok = False
                break
        if not ok:
            for suffix in ("lane", "ascent"):
                for ext in (".lalrpop", ".rs"):
                    try:
                        os.remove(os.path.join(gdir, "%s_%s%s" % (name, suffix, ext)))
                    except OSError:
                        pass
            continue
        out.append(dict(name=name, prods=prods, terms=used, text=text))
    return out


def run_gen_unit(root, repo, us, prop, tier, seed, work):
    r = dict(unit="native/gen", kind="native", status="undecided", reason="", failed=[], obligations=0, discharged=0,
             functions=["generated <X>Parser::parse of every grammar variant in units/gen/unit.json (lane table / LALR / LR(1); table-driven / recursive ascent), of the seeded random grammars and lexer grammars"],
             assumptions=[], notes=[], bounded=True, bounds="", wall_s=0.0, solver_ms=0, cfg={}, checker_cmd="", samples=[],
             guards={}, evaluations=0, distinct_nontrivial=0)
    t0 = time.time()
    os.makedirs(work, exist_ok=True)
    try:
        exe, cfg, err = build(root, repo, work, seed, tier)
    except subprocess.TimeoutExpired:
        r["reason"] = "build timed out"
        return r
    r["cfg"] = {k: v for k, v in cfg.items() if not k.startswith("_")}
    if err:
        r["reason"] = err
        r["wall_s"] = time.time() - t0
        return r
    arg = "1" if tier == "thorough" else "0"
    key = "len_thorough" if tier == "thorough" else "len_quick"
    r["bounds"] = "all token sequences up to length " + ", ".join("%s: %d" % (k, g[key]) for k, g in cfg["grammars"].items()) + \
                  " over each grammar's terminals (plus one injected stream error at every position), 14 generated parser variants"
    r["checker_cmd"] = "cargo build -p lalrpop; lalrpop <14 grammar variants>; cargo build <harness>; gen_native search %s" % arg
    try:
        p = subprocess.run([exe, "search", arg], capture_output=True, text=True, timeout=cfg.get("timeout_s", 1800))
    except subprocess.TimeoutExpired:
        r["reason"] = "bounded search timed out"
        return r
    out = p.stdout
    m = re.search(r"checked (\d+) \(variant, input\) pairs", out)
    n = int(m.group(1)) if m else 0
    r["evaluations"] = n
    r["distinct_nontrivial"] = n
    r["obligations"] = n
    fails = re.findall(r"FAILING-INPUT: (variant=(\S+) prop=(C\d+) input=(.*?)(?: err@(\d+))? :: (.*))\nREPLAY-ARG: (.*)", out)
    for (full, variant, fprop, inp, erri, msg, rarg) in fails:
        r["failed"].append(dict(id="native/gen:%s:%s" % (variant, fprop), function=variant, message=full[:600], clause="",
                                tags=[fprop], output=full, counterexample="variant %s, tokens [%s]%s" % (variant, inp, (", stream error at item %s" % erri) if erri else ""),
                                replay_gen=dict(arg=rarg.strip(), seed=seed, tier=tier)))
    if p.returncode not in (0, 1) or n == 0:
        r["reason"] = "harness crashed or checked nothing: " + (out + p.stderr)[-600:]
        # a panic inside a generated parser / the runtime on some input is itself a C08 violation
        pm = re.search(r"panicked at ([^\n]*)\n?([^\n]*)", p.stderr)
        if pm:
            r["failed"].append(dict(id="native/gen:panic", function="gen_native", message="panic during the bounded run: " + pm.group(0)[:300],
                                    clause="", tags=["C08"], output=p.stderr[-2000:], counterexample=None))
            # the run was cut short: a C08 violation, and nothing is decided for the other properties
            r["status"] = "undecided"
        r["wall_s"] = time.time() - t0
        return r
    # C11 end to end
    an, afails = run_ambig(root, repo, cfg, cfg["_lalrpop"], work, seed=seed, tier=tier)
    for af in afails:
        r["failed"].append(dict(id="native/gen:ambig_%s:C11" % af["pair"].replace(":", "_"), function="lexer ambiguity check", message=af["msg"][:600], clause="",
                                tags=["C11"], output=af["msg"], counterexample=af["msg"], replay_gen=dict(arg="ambig=" + af["pair"], seed=seed, tier=tier)))
    n += an
    r["evaluations"] = n
    r["distinct_nontrivial"] = n
    r["obligations"] = n
    r["discharged"] = n - len(fails) - len(afails)
    r["status"] = "fail" if (fails or afails) else "pass"
    r["samples"] = [dict(obligation=l, ms=0) for l in out.strip().splitlines()[-3:]]
    r["wall_s"] = time.time() - t0
    return r


def replay(root, repo, d):
    work = os.path.join(root, "work", "replay-%d" % os.getpid())
    try:
        # the random grammars of a run depend on its seed and tier: rebuild the harness the failing run used
        rseed, rtier = int(d["replay_gen"].get("seed", 0)), d["replay_gen"].get("tier", "quick")
        exe, cfg, err = build(root, repo, work, rseed, rtier)
        if err:
            print("replay could not be built: " + err)
            return 2
        if d["replay_gen"]["arg"].startswith("ambig="):
            an, afails = run_ambig(root, repo, cfg, cfg["_lalrpop"], work, only=d["replay_gen"]["arg"][6:], seed=rseed, tier=rtier)
            for af in afails:
                print("FAILING-INPUT: " + af["msg"])
            if afails:
                print("REPLAY: the failing input reproduces on the real code")
                return 1
            print("replay ok: verdict as expected")
            return 0
        args = d["replay_gen"]["arg"].split()
        p = subprocess.run([exe, "replay"] + args, capture_output=True, text=True, timeout=300)
        print(p.stdout.strip())
        if p.stderr.strip():
            print(p.stderr.strip()[-800:])
        if "FAILING-INPUT" in p.stdout or p.returncode not in (0, 1):
            print("REPLAY: the failing input reproduces on the real code")
            return 1
        return 0
    finally:
        shutil.rmtree(work, ignore_errors=True)
