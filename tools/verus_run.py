#!/usr/bin/env python3
"""Run Verus on an assembled unit and turn its output into per-obligation results."""
import json
import os
import re
import subprocess
import time

VERUS = os.environ.get("VERIF_VERUS", "verus")

# messages Verus prints for obligations it could not discharge (verification failures proper)
FAIL_PATTERNS = [
    "postcondition not satisfied", "precondition not satisfied", "invariant not satisfied",
    "assertion failed", "possible arithmetic underflow/overflow", "possible division by zero",
    "possible bit shift underflow/overflow", "unreachable", "panic", "decreases not satisfied",
    "could not prove termination", "loop ensures not satisfied", "loop invariant not satisfied",
    "recommendation not met", "index out of bounds", "failed this", "not satisfied", "cannot prove",
]
LIMIT_PATTERNS = ["rlimit", "Resource limit", "resource limit", "timed out", "time limit"]


class VerusResult:
    def __init__(self):
        self.status = "undecided"      # pass | fail | undecided
        self.reason = ""
        self.verified = 0
        self.errors = 0
        self.functions = {}            # verus function name -> dict(success, time_us, rlimit)
        self.failures = []             # dict(message, lines, tagged_lines, rendered)
        self.smt_ms = 0
        self.total_ms = 0
        self.wall_s = 0.0
        self.stderr_tail = ""
        self.cmd = ""
        self.version = ""
        self.limit_note = ""


def run(path, extra_args=(), timeout=900, rlimit=None, cwd=None):
    res = VerusResult()
    args = [VERUS, os.path.basename(path), "--output-json", "--time", "--multiple-errors", "50"]
    if rlimit:
        args += ["--rlimit", str(rlimit)]
    args += list(extra_args) + ["--", "--error-format=json"]
    res.cmd = " ".join(args)
    t0 = time.time()
    try:
        p = subprocess.run(args, cwd=cwd or os.path.dirname(path), capture_output=True, text=True, timeout=timeout)
    except subprocess.TimeoutExpired:
        res.reason = "verus timed out after %ds" % timeout
        res.wall_s = time.time() - t0
        return res
    res.wall_s = time.time() - t0
    diags = []
    other = []
    for line in p.stderr.splitlines():
        line = line.strip()
        if line.startswith("{") and '"$message_type"' in line:
            try:
                diags.append(json.loads(line))
                continue
            except ValueError:
                pass
        if line:
            other.append(line)
    res.stderr_tail = "\n".join(other[-30:])
    out = None
    try:
        out = json.loads(p.stdout)
    except ValueError:
        out = None
    errs = [d for d in diags if d.get("level") == "error"]
    if out is None or "verification-results" not in out:
        res.reason = "verus produced no verification results (front-end error): " + "; ".join(
            d.get("message", "")[:200] for d in errs[:5]) + " " + res.stderr_tail[-400:]
        res.failures = [render_diag(d) for d in errs[:10]]
        return res
    vr = out["verification-results"]
    res.version = out.get("verus", {}).get("version", "")
    res.verified = vr.get("verified", 0)
    res.errors = vr.get("errors", 0)
    tm = out.get("times-ms", {})
    res.total_ms = tm.get("total", 0)
    res.smt_ms = tm.get("smt", {}).get("total", 0)
    for m in tm.get("smt", {}).get("smt-run-module-times", []):
        for f in m.get("function-breakdown", []):
            res.functions[f["function"]] = dict(success=f["success"], time_us=f.get("time-micros", 0),
                                                rlimit=f.get("rlimit", 0), mode=f.get("mode:", ""))
    if vr.get("encountered-vir-error") or (vr.get("encountered-error") and not errs):
        res.reason = "verus reported a VIR/front-end error: " + "; ".join(d.get("message", "")[:200] for d in errs[:5])
        res.failures = [render_diag(d) for d in errs[:10]]
        return res
    if vr.get("success") and not errs:
        res.status = "pass"
        return res
    # classify the error diagnostics
    limit = False
    for d in errs:
        msg = d.get("message", "")
        if msg.startswith("aborting due to") or msg.startswith("could not compile"):
            continue
        if any(x in msg for x in LIMIT_PATTERNS):
            limit = True
        r = render_diag(d)
        r["is_verification_failure"] = any(x in msg for x in FAIL_PATTERNS) and not any(
            x in msg for x in LIMIT_PATTERNS)
        res.failures.append(r)
    if limit:
        definite = [f for f in res.failures if f["is_verification_failure"]]
        if not definite:
            res.reason = "a solver resource limit was hit (undecided, not a violation)"
            return res
        # obligations the solver refuted before it ran out of resources elsewhere are failures like any other; the ones it
        # gave up on stay undecided and are dropped from the report
        res.limit_note = "a solver resource limit was also hit: obligations not reached are undecided"
        res.failures = definite
        res.status = "fail"
        return res
    non_verif = [f for f in res.failures if not f["is_verification_failure"]]
    if non_verif and res.errors == 0:
        res.reason = "verus rejected the text (not a proof failure): " + non_verif[0]["message"][:300]
        return res
    res.status = "fail"
    return res


def render_diag(d):
    spans = d.get("spans", [])
    lines = []
    tagged = []
    for s in spans:
        ls, le = s.get("line_start", 0), s.get("line_end", 0)
        lines.append((ls, le, bool(s.get("is_primary")), s.get("label") or ""))
        label = s.get("label") or ""
        if le - ls <= 3 or ("failed this" in label and le - ls <= 60):
            for t in s.get("text", []):
                tagged += re.findall(r"@(C\d+)", t.get("text", ""))
    prim = [l for l in lines if l[2]]
    return dict(message=d.get("message", ""), spans=lines, primary_line=(prim[0][0] if prim else (lines[0][0] if lines else 0)),
                clause_tags=sorted(set(tagged)), rendered=d.get("rendered") or d.get("message", ""),
                labels=[l[3] for l in lines if l[3]])
