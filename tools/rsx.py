#!/usr/bin/env python3
"""rsx -- Rust-aware item extractor and contract injector (no dependencies).

The verified text must demonstrably be the code that runs, so this tool never
re-types code: it tokenises the real source file, locates items / functions /
loops structurally, copies their exact text and applies a *closed* list of
syntactic rewrites (R1..R9, see DESIGN.md section 2.1), each with a checked side
condition, plus contract insertions at five structural injection points.
Every rewrite and insertion is logged (file, line, before, after) so that each
run regenerates its own "what the extraction drops" statement.

A rewrite whose side condition fails, an item that cannot be found, or a
contract that cannot be attached raises Drift -> the caller exits 2
(UNDECIDED), never a VIOLATION.
"""
import hashlib
import re
import sys


class Drift(Exception):
    """The source no longer has the structure the unit description expects."""


# ----------------------------------------------------------------------------
# tokenizer
# ----------------------------------------------------------------------------
class Tok:
    __slots__ = ("kind", "text", "start", "end")

    def __init__(self, kind, text, start, end):
        self.kind, self.text, self.start, self.end = kind, text, start, end

    def __repr__(self):
        return "Tok(%s,%r,%d)" % (self.kind, self.text, self.start)


_ident_re = re.compile(r"[A-Za-z_][A-Za-z0-9_]*")
_num_re = re.compile(r"[0-9][0-9A-Za-z_]*(\.[0-9][0-9A-Za-z_]*)?")
OPEN = {"(": ")", "[": "]", "{": "}"}
CLOSE = {")", "]", "}"}


def tokenize(text):
    """Return (all tokens incl. comments, significant tokens). Whitespace is skipped."""
    toks = []
    i, n = 0, len(text)
    while i < n:
        c = text[i]
        if c.isspace():
            i += 1
            continue
        if text.startswith("//", i):
            j = text.find("\n", i)
            j = n if j < 0 else j
            toks.append(Tok("comment", text[i:j], i, j))
            i = j
            continue
        if text.startswith("/*", i):
            depth, j = 1, i + 2
            while j < n and depth:
                if text.startswith("/*", j):
                    depth += 1
                    j += 2
                elif text.startswith("*/", j):
                    depth -= 1
                    j += 2
                else:
                    j += 1
            toks.append(Tok("comment", text[i:j], i, j))
            i = j
            continue
        # raw strings / byte strings
        m = re.match(r"(b|c)?r(#*)\"", text[i:i + 40])
        if m and (i == 0 or not (text[i - 1].isalnum() or text[i - 1] == "_")):
            hashes = m.group(2)
            endpat = '"' + hashes
            j = text.find(endpat, i + m.end())
            if j < 0:
                raise Drift("unterminated raw string at %d" % i)
            j += len(endpat)
            toks.append(Tok("string", text[i:j], i, j))
            i = j
            continue
        if c == '"' or (c in "bc" and text.startswith('"', i + 1)):
            j = i + (1 if c == '"' else 2)
            while j < n and text[j] != '"':
                j += 2 if text[j] == "\\" else 1
            j += 1
            toks.append(Tok("string", text[i:j], i, j))
            i = j
            continue
        if c == "'" or (c == "b" and text.startswith("'", i + 1)):
            q = i if c == "'" else i + 1
            # char literal or lifetime?
            if text.startswith("\\", q + 1):
                j = q + 2
                while j < n and text[j] != "'":
                    j += 1
                j += 1
                toks.append(Tok("char", text[i:j], i, j))
                i = j
                continue
            if q + 2 < n and text[q + 2] == "'":
                toks.append(Tok("char", text[i:q + 3], i, q + 3))
                i = q + 3
                continue
            m = _ident_re.match(text, q + 1)
            if m and c == "'":
                toks.append(Tok("lifetime", text[i:m.end()], i, m.end()))
                i = m.end()
                continue
            # multi-byte char literal such as 'é'
            j = text.find("'", q + 1)
            if j < 0 or j - q > 8:
                raise Drift("cannot tokenise quote at %d" % i)
            toks.append(Tok("char", text[i:j + 1], i, j + 1))
            i = j + 1
            continue
        m = _ident_re.match(text, i)
        if m:
            toks.append(Tok("ident", m.group(0), i, m.end()))
            i = m.end()
            continue
        m = _num_re.match(text, i)
        if m:
            # do not swallow the `..` of a range such as `0..n`
            t = m.group(0)
            toks.append(Tok("number", t, i, i + len(t)))
            i += len(t)
            continue
        for p in ("->", "=>", "::"):
            if text.startswith(p, i):
                toks.append(Tok("punct", p, i, i + 2))
                i += 2
                break
        else:
            toks.append(Tok("punct", c, i, i + 1))
            i += 1
    sig = [t for t in toks if t.kind != "comment"]
    return toks, sig


class Src:
    """A source fragment: text + significant tokens + bracket matching."""

    def __init__(self, text, origin):
        self.text = text
        self.origin = origin
        self.all, self.toks = tokenize(text)
        self.match = {}
        stack = []
        for i, t in enumerate(self.toks):
            if t.kind == "punct" and t.text in OPEN:
                stack.append(i)
            elif t.kind == "punct" and t.text in CLOSE:
                if not stack:
                    raise Drift("%s: unbalanced '%s' at byte %d" % (origin, t.text, t.start))
                o = stack.pop()
                if OPEN[self.toks[o].text] != t.text:
                    raise Drift("%s: mismatched bracket at byte %d" % (origin, t.start))
                self.match[o] = i
                self.match[i] = o
        if stack:
            raise Drift("%s: unclosed bracket at byte %d" % (origin, self.toks[stack[-1]].start))
        self._line_starts = [0] + [m.end() for m in re.finditer("\n", text)]

    def line_of(self, pos):
        import bisect
        return bisect.bisect_right(self._line_starts, pos)

    def is_(self, i, text, kind=None):
        if i < 0 or i >= len(self.toks):
            return False
        t = self.toks[i]
        return t.text == text and (kind is None or t.kind == kind)


# ----------------------------------------------------------------------------
# items
# ----------------------------------------------------------------------------
ITEM_KW = {"fn", "struct", "enum", "trait", "impl", "type", "const", "static", "use", "mod",
           "macro_rules", "extern", "union"}
QUALS = {"pub", "unsafe", "async", "default", "crate", "super", "in"}


class Item:
    def __init__(self, **kw):
        self.__dict__.update(kw)

    def __repr__(self):
        return "Item(%s %s)" % (self.kind, self.name)


def _skip_angles(src, i):
    """i at '<' -> index after matching '>' (-> and => are single tokens)."""
    depth = 0
    while i < len(src.toks):
        t = src.toks[i]
        if t.kind == "punct":
            if t.text == "<":
                depth += 1
            elif t.text == ">":
                depth -= 1
                if depth == 0:
                    return i + 1
            elif t.text in OPEN:
                i = src.match[i]
        i += 1
    raise Drift("unbalanced <> in %s" % src.origin)


def _type_text(src, lo, hi):
    return "".join(t.text for t in src.toks[lo:hi])


def parse_items(src, lo, hi):
    """Parse the items between token indices [lo, hi)."""
    items = []
    i = lo
    while i < hi:
        start_tok = i
        # leading attributes
        while src.is_(i, "#") and (src.is_(i + 1, "[") or (src.is_(i + 1, "!") and src.is_(i + 2, "["))):
            j = i + 1 if src.is_(i + 1, "[") else i + 2
            i = src.match[j] + 1
        # qualifiers
        while i < hi and src.toks[i].kind == "ident" and src.toks[i].text in QUALS:
            i += 1
            if src.is_(i, "("):
                i = src.match[i] + 1
        if i >= hi:
            break
        t = src.toks[i]
        kw = t.text
        name, body, trait_for, selfty = None, None, None, None
        if t.kind == "ident" and kw in ITEM_KW:
            if kw == "extern" and src.is_(i + 1, "crate"):
                kw = "extern_crate"
            if kw == "macro_rules":
                name = src.toks[i + 2].text
                j = i + 3
                body = (j, src.match[j])
                end_tok = src.match[j]
                if src.is_(end_tok + 1, ";"):
                    end_tok += 1
            elif kw == "impl":
                j = i + 1
                if src.is_(j, "<"):
                    j = _skip_angles(src, j)
                # up to `for`, `where` or `{`
                k = j
                first_lo, first_hi = j, None
                for_at = None
                while not src.is_(k, "{"):
                    if src.is_(k, "<"):
                        k = _skip_angles(src, k)
                        continue
                    if src.is_(k, "for", "ident") and for_at is None:
                        for_at = k
                    if src.is_(k, "where", "ident") and first_hi is None:
                        first_hi = k
                    if src.toks[k].text in OPEN:
                        k = src.match[k]
                    k += 1
                if first_hi is None:
                    first_hi = k
                if for_at is not None:
                    trait_for = _type_text(src, first_lo, for_at)
                    selfty = _type_text(src, for_at + 1, first_hi)
                else:
                    selfty = _type_text(src, first_lo, first_hi)
                # short names: strip generics
                def short(s):
                    s = re.sub(r"<.*", "", s)
                    return s.split("::")[-1]
                name = (short(trait_for) + "@" + short(selfty)) if trait_for else short(selfty)
                body = (k, src.match[k])
                end_tok = src.match[k]
            else:
                j = i + 1
                if kw == "fn" or kw in ("struct", "enum", "trait", "type", "const", "static", "mod", "union"):
                    if kw in ("const", "static") and src.is_(j, "mut"):
                        j += 1
                    name = src.toks[j].text
                # find end: first `;` or `{...}` at depth 0
                k = j
                while True:
                    if k >= hi:
                        raise Drift("%s: runaway item %s %s" % (src.origin, kw, name))
                    tk = src.toks[k]
                    if tk.kind == "punct" and tk.text == ";":
                        end_tok = k
                        break
                    if tk.kind == "punct" and tk.text == "{" and kw not in (
                            "use", "type", "const", "static", "extern_crate"):
                        body = (k, src.match[k])
                        end_tok = src.match[k]
                        break
                    if tk.kind == "punct" and tk.text in OPEN:
                        k = src.match[k]
                    k += 1
                if kw == "struct" and body is None:
                    pass  # tuple / unit struct ended by `;`
            i2 = end_tok + 1
        elif t.kind == "ident" and src.is_(i + 1, "!"):
            # macro invocation item
            kw = "macro_call"
            name = t.text
            j = i + 2
            body = (j, src.match[j])
            end_tok = src.match[j]
            if src.is_(end_tok + 1, ";"):
                end_tok += 1
            i2 = end_tok + 1
        else:
            raise Drift("%s:%d: cannot parse item starting with %r" % (
                src.origin, src.line_of(t.start), t.text))
        # start position: include preceding doc comments (contiguous comment lines)
        start = src.toks[start_tok].start
        items.append(Item(kind=kw, name=name, tok_lo=start_tok, tok_hi=end_tok, kw_tok=i,
                          start=start, end=src.toks[end_tok].end, body=body,
                          trait_for=trait_for, selfty=selfty))
        i = i2
    return items


class Fn:
    """Anatomy of a function item."""

    def __init__(self, src, item, container):
        self.src, self.item, self.container = src, item, container
        self.name = item.name
        self.key = (container + "::" if container else "") + item.name
        i = item.kw_tok + 2
        if src.is_(i, "<"):
            i = _skip_angles(src, i)
        if not src.is_(i, "("):
            raise Drift("fn %s: parameter list not found" % self.key)
        self.params = (i, src.match[i])
        i = src.match[i] + 1
        self.arrow = None
        self.ret = None
        stop = item.body[0] if item.body else item.tok_hi
        if src.is_(i, "->"):
            self.arrow = i
            j = i + 1
            while j < stop and not src.is_(j, "where", "ident"):
                if src.is_(j, "<"):
                    j = _skip_angles(src, j)
                    continue
                if src.toks[j].text in OPEN:
                    j = src.match[j]
                j += 1
            self.ret = (i + 1, j)  # token range of the return type
            i = j
        self.sig_end_tok = stop  # the `{` or `;` token
        self.body = item.body

    def loops(self):
        """Loops in source order: dict(kw, label, kw_tok, open, close, ordinal)."""
        out = []
        if not self.body:
            return out
        src = self.src
        lo, hi = self.body
        i = lo + 1
        while i < hi:
            t = src.toks[i]
            if t.kind == "ident" and t.text in ("loop", "while", "for"):
                if t.text == "for" and src.is_(i + 1, "<"):
                    i += 1
                    continue
                if src.is_(i - 1, ".") or src.is_(i - 1, "::"):
                    i += 1
                    continue
                label = None
                if src.is_(i - 1, ":") and i - 2 >= 0 and src.toks[i - 2].kind == "lifetime":
                    label = src.toks[i - 2].text
                j = i + 1
                while not src.is_(j, "{"):
                    if src.toks[j].text in OPEN:
                        j = src.match[j]
                    j += 1
                    if j >= hi:
                        raise Drift("fn %s: loop body not found" % self.key)
                out.append(dict(kw=t.text, label=label, kw_tok=i, open=j, close=src.match[j],
                                ordinal=len(out) + 1,
                                first_tok=(i - 2 if label else i)))
            i += 1
        return out


def index_file(src):
    """All items of a file, with functions of impls/traits indexed by Container::name."""
    top = parse_items(src, 0, len(src.toks))
    fns = {}
    containers = {}
    for it in top:
        if it.kind == "fn":
            f = Fn(src, it, None)
            fns[f.key] = f
        elif it.kind in ("impl", "trait") and it.body:
            inner = parse_items(src, it.body[0] + 1, it.body[1])
            it.inner = inner
            if it.name in containers:
                # several impls with the same short name (e.g. `impl From<A> for T`, `impl From<B> for T`):
                # number the later ones in source order
                n = 2
                while "%s#%d" % (it.name, n) in containers:
                    n += 1
                it.name = "%s#%d" % (it.name, n)
            containers.setdefault(it.name, []).append(it)
            for sub in inner:
                if sub.kind == "fn":
                    f = Fn(src, sub, it.name)
                    if f.key in fns:
                        raise Drift("%s: duplicate function key %s" % (src.origin, f.key))
                    fns[f.key] = f
    return top, fns, containers


# ----------------------------------------------------------------------------
# contract files (.vspec)
# ----------------------------------------------------------------------------
class Entry:
    def __init__(self, head, lineno, path):
        self.head, self.lineno, self.path = head, lineno, path
        self.sections = {}
        self.used = False

    def get(self, k, default=""):
        return self.sections.get(k, default)


def parse_vspec(path):
    entries = []
    cur, sec = None, None
    with open(path) as fh:
        for ln, line in enumerate(fh, 1):
            raw = line.rstrip("\n")
            if raw.startswith("@@"):
                cur = Entry(raw[2:].split(), ln, path)
                entries.append(cur)
                sec = None
                continue
            if raw.startswith("##"):
                continue
            if cur is None:
                if raw.strip():
                    raise Drift("%s:%d: text before first @@ entry" % (path, ln))
                continue
            m = re.match(r"^([a-z]+):\s*(.*)$", raw)
            if m and not raw.startswith(" "):
                sec = m.group(1)
                cur.sections[sec] = (m.group(2) + "\n") if m.group(2) else ""
                continue
            if sec is None:
                if raw.strip():
                    raise Drift("%s:%d: text outside a section" % (path, ln))
                continue
            cur.sections[sec] += raw + "\n"
    return entries


# ----------------------------------------------------------------------------
# edits
# ----------------------------------------------------------------------------
class Edits:
    def __init__(self, src):
        self.src = src
        self.list = []  # (start, end, seq, replacement, rule, note)
        self.log = []

    def replace(self, start, end, new, rule, note=""):
        for (s, e, _, _, r, _) in self.list:
            if s < end and start < e and not (s == e or start == end):
                raise Drift("overlapping edits (%s vs %s) at %s:%d" % (
                    rule, r, self.src.origin, self.src.line_of(start)))
        self.list.append((start, end, len(self.list), new, rule, note))
        if not rule.startswith("inject"):
            self.log.append(dict(rule=rule, file=self.src.origin, line=self.src.line_of(start),
                                 before=self.src.text[start:end], after=new, note=note))

    def insert(self, pos, new, rule, note=""):
        self.replace(pos, pos, new, rule, note)

    def render(self, start, end):
        """Text of [start,end) with the edits inside it applied."""
        out = []
        pos = start
        for (s, e, _, new, _, _) in sorted(self.list, key=lambda x: (x[0], x[2])):
            if s < start or e > end:
                continue
            out.append(self.src.text[pos:s])
            out.append(new)
            pos = max(pos, e)
        out.append(self.src.text[pos:end])
        return "".join(out)


def sha(text):
    return hashlib.sha256(text.encode()).hexdigest()[:16]


# ----------------------------------------------------------------------------
# rewrites
# ----------------------------------------------------------------------------
def r1_strip_macro_stmts(src, ed, macro, lo_tok, hi_tok, side_ok, rule="R1"):
    """Delete `macro!(..);` statements between token indices."""
    n = 0
    i = lo_tok
    while i < hi_tok:
        if src.is_(i, macro, "ident") and src.is_(i + 1, "!") and src.is_(i + 2, "("):
            close = src.match[i + 2]
            if not src.is_(close + 1, ";"):
                raise Drift("%s!: invocation at line %d is not a statement" % (
                    macro, src.line_of(src.toks[i].start)))
            if not side_ok:
                raise Drift("%s: side condition of rewrite %s no longer holds" % (src.origin, rule))
            ed.replace(src.toks[i].start, src.toks[close + 1].end, "", rule,
                       "statement expands to nothing observable (guard is const false)")
            n += 1
            i = close + 2
            continue
        i += 1
    return n


def check_debug_macro(src):
    """Side condition of R1: `debug!` only evaluates its arguments under `if DEBUG_ENABLED`
    and DEBUG_ENABLED is the constant false."""
    t = re.sub(r"\s+", " ", src.text)
    ok1 = "const DEBUG_ENABLED: bool = false;" in t
    ok2 = re.search(r"macro_rules! debug \{ \(\$\(\$args:expr\),\* \$\(,\)\*\) => \{ "
                    r"#\[cfg\(feature = \"std\"\)\] if DEBUG_ENABLED \{ eprintln!\(\$\(\$args\),\*\); \} \} \}", t)
    return bool(ok1 and ok2)


def r2_break_value(src, ed, fn, label, ty):
    """let x = 'l: loop { .. break 'l v; .. };  ==>
       let brk_x: T; 'l: loop { .. { brk_x = v; break 'l; } .. } let x = brk_x;"""
    lp = [l for l in fn.loops() if l["label"] == label]
    if len(lp) != 1:
        raise Drift("fn %s: labelled loop %s not found exactly once" % (fn.key, label))
    lp = lp[0]
    if lp["kw"] != "loop":
        raise Drift("fn %s: %s is not a `loop`" % (fn.key, label))
    i = lp["first_tok"]
    # expect: let <ident> = 'l : loop
    if not (src.is_(i - 1, "=") and src.toks[i - 2].kind == "ident" and src.is_(i - 3, "let", "ident")):
        raise Drift("fn %s: loop %s is not the initialiser of a plain `let x =`" % (fn.key, label))
    var = src.toks[i - 2].text
    if not src.is_(lp["close"] + 1, ";"):
        raise Drift("fn %s: `let %s = %s: loop {..}` not followed by `;`" % (fn.key, var, label))
    brk = "brk_" + var
    ed.replace(src.toks[i - 3].start, src.toks[i - 1].end, "let %s: %s;" % (brk, ty), "R2",
               "break-with-value desugared (declaration)")
    ed.replace(src.toks[lp["close"] + 1].start, src.toks[lp["close"] + 1].end,
               " let %s = %s;" % (var, brk), "R2", "break-with-value desugared (binding)")
    n = 0
    j = lp["open"] + 1
    while j < lp["close"]:
        if src.is_(j, "break", "ident") and src.is_(j + 1, label):
            k = j + 2
            while not src.is_(k, ";"):
                if src.toks[k].text in OPEN:
                    k = src.match[k]
                k += 1
            if k == j + 2:
                raise Drift("fn %s: `break %s` without a value" % (fn.key, label))
            val = src.text[src.toks[j + 2].start:src.toks[k - 1].end]
            ed.replace(src.toks[j].start, src.toks[k].end,
                       "{ %s = %s; break %s; }" % (brk, val, label), "R2", "break-with-value desugared")
            n += 1
            j = k
        j += 1
    if n == 0:
        raise Drift("fn %s: no `break %s <value>` found" % (fn.key, label))
    return var


def r3_drop_tail_continue(src, ed, fn, which):
    """Delete a `continue;` that is the last statement of the last arm of an if/else chain
    which is itself the last expression of a `for` body."""
    lp = _find_loop(fn, which)
    if lp["kw"] != "for":
        raise Drift("fn %s: loop %s is not a `for`" % (fn.key, which))
    close = lp["close"]
    # last token before the for-body's `}` must be `}` closing an else block
    e_close = close - 1
    if not src.is_(e_close, "}"):
        raise Drift("fn %s: for body does not end in a block" % fn.key)
    e_open = src.match[e_close]
    if not src.is_(e_open - 1, "else", "ident"):
        raise Drift("fn %s: for body does not end in an else block" % fn.key)
    if not (src.is_(e_close - 1, ";") and src.is_(e_close - 2, "continue", "ident")):
        # nothing to drop (already gone): not an error
        return 0
    # walk the if/else chain back to its head and check it starts a statement
    k = e_open - 1
    while True:
        blk_close = k - 1
        if not src.is_(blk_close, "}"):
            raise Drift("fn %s: malformed if/else chain" % fn.key)
        blk_open = src.match[blk_close]
        # find the `if` of this arm
        j = blk_open - 1
        while j > lp["open"] and not src.is_(j, "if", "ident"):
            if src.toks[j].text in CLOSE:
                j = src.match[j]
            j -= 1
        if not src.is_(j, "if", "ident"):
            raise Drift("fn %s: `if` of the chain not found" % fn.key)
        if src.is_(j - 1, "else", "ident"):
            k = j - 1
            continue
        head = j
        break
    prev = src.toks[head - 1]
    if prev.text not in (";", "{", "}"):
        raise Drift("fn %s: if/else chain is not in statement position" % fn.key)
    ed.replace(src.toks[e_close - 2].start, src.toks[e_close - 1].end, "", "R3",
               "`continue;` in tail position of the for body is a no-op")
    return 1


def r9_label_block(src, ed, fn, label, entry=None):
    """'l: { .. }  ==>  'l: loop { .. break 'l; }   (a labelled block is a loop that runs once)"""
    lo, hi = fn.body
    hits = []
    for i in range(lo, hi):
        if src.toks[i].kind == "lifetime" and src.toks[i].text == label and src.is_(i + 1, ":") \
                and src.is_(i + 2, "{"):
            hits.append(i)
    if len(hits) != 1:
        raise Drift("fn %s: labelled block %s not found exactly once" % (fn.key, label))
    i = hits[0]
    close = src.match[i + 2]
    # side condition: the block is used as a statement (its value is unit): previous token ends a statement
    if src.toks[i - 1].text not in (";", "{", "}"):
        raise Drift("fn %s: labelled block %s is not in statement position" % (fn.key, label))
    spec = entry.get("spec") if entry is not None else ""
    ed.replace(src.toks[i + 2].start, src.toks[i + 2].start, "loop " + (("\n" + spec.rstrip("\n") + "\n            ") if spec.strip() else ""),
               "R9", "labelled block -> loop that runs once")
    if entry is not None and entry.get("body").strip():
        ed.insert(src.toks[i + 2].end, "\n" + entry.get("body").rstrip("\n") + "\n", "inject-loopbody")
    exit_txt = (entry.get("exit").rstrip("\n") + "\n") if (entry is not None and entry.get("exit").strip()) else ""
    if exit_txt:
        ed.insert(src.toks[close].start, exit_txt, "inject-hint")
    ed.replace(src.toks[close].start, src.toks[close].start, "break %s; " % label, "R9",
               "labelled block -> loop that runs once (exit)")


def _find_loop(fn, which):
    loops = fn.loops()
    if which.startswith("#"):
        n = int(which[1:])
        if n < 1 or n > len(loops):
            raise Drift("fn %s has %d loops, contract refers to loop %s" % (fn.key, len(loops), which))
        return loops[n - 1]
    hit = [l for l in loops if l["label"] == which]
    if len(hit) != 1:
        raise Drift("fn %s: loop %s not found exactly once" % (fn.key, which))
    return hit[0]


def name_return(src, ed, fn, name):
    """`-> T`  ==>  `-> (name: T)` (Verus needs a name to talk about the result)."""
    if fn.ret is None:
        raise Drift("fn %s has no return type to name" % fn.key)
    lo, hi = fn.ret
    ed.insert(src.toks[lo].start, "(%s: " % name, "inject-ret")
    ed.insert(src.toks[hi - 1].end, ")", "inject-ret")


def inject_fn(src, ed, fn, entry):
    if entry.get("ret").strip():
        name_return(src, ed, fn, entry.get("ret").strip())
    if entry.get("attr").strip():
        ed.insert(src.toks[fn.item.kw_tok].start if not _has_quals(src, fn) else src.toks[_qual_start(src, fn)].start,
                  entry.get("attr").strip() + "\n    ", "inject-attr")
    spec = entry.get("spec")
    if spec.strip():
        t = src.toks[fn.sig_end_tok]
        ed.insert(t.start, "\n" + spec.rstrip("\n") + "\n    ", "inject-spec")
    body = entry.get("body")
    if body.strip():
        if not fn.body:
            raise Drift("fn %s has no body for a body-start proof block" % fn.key)
        ed.insert(src.toks[fn.body[0]].end, "\n" + body.rstrip("\n") + "\n", "inject-body")


def _qual_start(src, fn):
    i = fn.item.kw_tok
    while i - 1 >= fn.item.tok_lo and (
            (src.toks[i - 1].kind == "ident" and src.toks[i - 1].text in QUALS) or src.is_(i - 1, ")")):
        if src.is_(i - 1, ")"):
            i = src.match[i - 1]
        else:
            i -= 1
    return i


def _has_quals(src, fn):
    return _qual_start(src, fn) != fn.item.kw_tok


def inject_loop(src, ed, fn, which, entry):
    lp = _find_loop(fn, which)
    itname = entry.get("iter").strip()
    if itname:
        # R16: `for pat in expr`  ==>  `for pat in <name>: expr` (Verus' way of naming the loop's ghost iterator)
        if lp["kw"] != "for":
            raise Drift("fn %s: loop %s is not a `for` loop (iter: section)" % (fn.key, which))
        j = lp["kw_tok"] + 1
        while j < lp["open"] and not (src.toks[j].kind == "ident" and src.toks[j].text == "in"):
            if src.toks[j].text in OPEN:
                j = src.match[j]
            j += 1
        if j >= lp["open"]:
            raise Drift("fn %s: `in` of for loop %s not found" % (fn.key, which))
        ed.insert(src.toks[j].end, " %s:" % itname, "R16", "ghost name for the for-loop iterator (Verus syntax; no effect on execution)")
    spec = entry.get("spec")
    if spec.strip():
        ed.insert(src.toks[lp["open"]].start, "\n" + spec.rstrip("\n") + "\n        ", "inject-loopspec")
    body = entry.get("body")
    if body.strip():
        ed.insert(src.toks[lp["open"]].end, "\n" + body.rstrip("\n") + "\n", "inject-loopbody")
    return lp


def strip_attrs(src, ed, item, keep=()):
    """R7: drop outer attributes (derive/doc/cfg..) of an extracted declaration."""
    i = item.tok_lo
    while src.is_(i, "#") and src.is_(i + 1, "["):
        close = src.match[i + 1]
        txt = src.text[src.toks[i].start:src.toks[close].end]
        if not any(k in txt for k in keep):
            ed.replace(src.toks[i].start, src.toks[close].end, "", "R7", "attribute dropped on a declaration")
        i = close + 1


def pub_fields(src, ed, item):
    """R7: raise field visibility of an extracted struct to `pub`."""
    if item.kind != "struct" or not item.body:
        return
    lo, hi = item.body
    i = lo + 1
    at_field_start = True
    while i < hi:
        t = src.toks[i]
        if at_field_start:
            while src.is_(i, "#") and src.is_(i + 1, "["):
                i = src.match[i + 1] + 1
            t = src.toks[i]
            if i < hi and t.kind == "ident" and t.text != "pub":
                ed.insert(t.start, "pub ", "R7", "field visibility raised (declaration only)")
            at_field_start = False
        if t.text == "<":
            i = _skip_angles(src, i)
            continue
        if t.text in OPEN:
            i = src.match[i]
        elif t.text == ",":
            at_field_start = True
        i += 1


def token_replace(src, ed, lo_tok, hi_tok, pattern, replacement, rule, note):
    """Replace every occurrence of the token sequence `pattern` (list of token texts)."""
    n = 0
    i = lo_tok
    L = len(pattern)
    while i + L <= hi_tok + 1:
        if all(src.toks[i + k].text == pattern[k] for k in range(L)):
            ed.replace(src.toks[i].start, src.toks[i + L - 1].end, replacement, rule, note)
            n += 1
            i += L
        else:
            i += 1
    return n


def expand_macro(src, macro_item, arg):
    """R6: expand a single-arm `($t:ty) => { .. }` macro_rules for one argument."""
    lo, hi = macro_item.body
    toks = src.toks
    # expect: ( $ t : ty ) => { body }
    if not (src.is_(lo + 1, "(") and src.is_(lo + 2, "$") and src.is_(lo + 4, ":") and src.is_(lo + 5, "ty")
            and src.is_(lo + 6, ")") and src.is_(lo + 7, "=>") and src.is_(lo + 8, "{")):
        raise Drift("macro %s no longer has the single ($t:ty) arm" % macro_item.name)
    var = toks[lo + 3].text
    b_open = lo + 8
    b_close = src.match[b_open]
    rest = b_close + 1
    if src.is_(rest, ";"):
        rest += 1
    if rest != hi:
        raise Drift("macro %s has more than one arm" % macro_item.name)
    body = src.text[toks[b_open].end:toks[b_close].start]
    return re.sub(r"\$" + var + r"\b", arg, body)


def annotate_closure(src, ed, fn, param_tokens, entry):
    """R10 / injection point 5: give a closure of `fn` a Verus specification.
       |p| body   ==>   |p: T| -> (r: R) requires.. ensures.. { body }
    The closure is located by the exact token sequence of its parameter list (must occur once in the
    function body); its body text is unchanged (braces are added around a brace-less body)."""
    lo, hi = fn.body
    L = len(param_tokens)
    hits = [i for i in range(lo, hi - L) if all(src.toks[i + k].text == param_tokens[k] for k in range(L))]
    if len(hits) != 1:
        raise Drift("fn %s: closure `%s` found %d times (expected once)" % (fn.key, " ".join(param_tokens), len(hits)))
    i = hits[0]
    body_lo = i + L
    if src.is_(body_lo, "{"):
        body_hi = src.match[body_lo] + 1
        braced = True
    else:
        braced = False
        j = body_lo
        while True:
            t = src.toks[j]
            if t.text in CLOSE or t.text in (",", ";"):
                break
            if t.text in OPEN:
                j = src.match[j]
            j += 1
        body_hi = j
    head = "%s -> (%s)\n%s\n" % (entry.get("params").strip(), entry.get("ret").strip(), entry.get("spec").rstrip("\n"))
    ed.replace(src.toks[i].start, src.toks[i + L - 1].end, head + ("" if braced else "{ "), "R10",
               "closure annotated with parameter types and a contract; body text unchanged")
    if not braced:
        ed.insert(src.toks[body_hi - 1].end, " }", "R10", "closing brace of the annotated closure body")


def stmt_anchor(src, fn, where, kind, name, ordinal):
    """Injection point 6: a statement of `fn` located structurally.
       kind = "let": the n-th `let <name>` / `let mut <name>` statement;
       kind = "call": the statement containing the n-th call `name(` (free function or method);
       kind = "kw": the statement starting with / containing the n-th keyword `name` (e.g. return).
    Returns the byte offset before the statement (where == "before") or after its terminating `;`."""
    lo, hi = fn.body
    hits = []
    for i in range(lo + 1, hi):
        t = src.toks[i]
        if kind == "let" and t.kind == "ident" and t.text == "let":
            j = i + 1
            if src.is_(j, "mut", "ident"):
                j += 1
            if src.is_(j, name, "ident"):
                hits.append(i)
        elif kind == "call" and t.kind == "ident" and t.text == name and src.is_(i + 1, "(") \
                and not src.is_(i - 1, "fn", "ident"):
            hits.append(i)
        elif kind == "kw" and t.kind == "ident" and t.text == name:
            hits.append(i)
    if ordinal < 1 or ordinal > len(hits):
        raise Drift("fn %s: %s `%s` #%d not found (%d candidates)" % (fn.key, kind, name, ordinal, len(hits)))
    t = hits[ordinal - 1]
    # innermost enclosing brace block
    open_tok = None
    i = t
    while i > lo:
        i -= 1
        tk = src.toks[i]
        if tk.text in CLOSE:
            i = src.match[i]
            continue
        if tk.text == "{":
            open_tok = i
            break
        if tk.text in ("(", "["):
            # the anchor is inside a parenthesised expression: keep walking out
            continue
    if open_tok is None:
        open_tok = lo
    # statement start: after the last `;` / `}` / `{` at depth 0 between open_tok and t
    start = open_tok + 1
    i = open_tok + 1
    while i < t:
        tk = src.toks[i]
        if tk.text in OPEN:
            close = src.match[i]
            if close >= t:
                i += 1      # the anchor is inside this group (e.g. a match scrutinee); do not skip it
                continue
            i = close
            if tk.text == "{" and not (src.is_(i + 1, "else", "ident") or src.is_(i + 1, ".") or src.is_(i + 1, "?")):
                start = i + 1
        elif tk.text == ";":
            start = i + 1
        i += 1
    if where == "before":
        return src.toks[start].start
    # after: the terminating `;` at depth 0
    i = t
    while i < src.match[open_tok]:
        tk = src.toks[i]
        if tk.text in OPEN:
            i = src.match[i]
        elif tk.text == ";":
            return tk.end
        i += 1
    raise Drift("fn %s: statement of %s `%s` #%d has no terminating `;`" % (fn.key, kind, name, ordinal))


def inject_hint(src, ed, fn, where, kind, name, ordinal, entry):
    pos = stmt_anchor(src, fn, where, kind, name, ordinal)
    ed.insert(pos, "\n" + entry.get("body").rstrip("\n") + "\n", "inject-hint")


def r11_unmut_param(src, ed, fn, name):
    """R11: `fn f(mut x: T) { body }`  ==>  `fn f(x_0: T) { let mut x = x_0; body }`
    (Rust's own meaning of a `mut` by-value parameter).  Verus cannot name the entry value of a mutated
    by-value parameter inside loop invariants; after R11 it is the immutable parameter `x_0`."""
    lo, hi = fn.params
    hits = [i for i in range(lo + 1, hi) if src.is_(i, "mut", "ident") and src.is_(i + 1, name, "ident")
            and src.is_(i + 2, ":") and (src.is_(i - 1, "(") or src.is_(i - 1, ","))]
    plain = [i for i in range(lo + 1, hi) if src.is_(i, name, "ident") and src.is_(i + 1, ":")
             and (src.is_(i - 1, "(") or src.is_(i - 1, ","))]
    if not fn.body:
        raise Drift("fn %s has no body" % fn.key)
    if len(hits) == 1:
        i = hits[0]
        ed.replace(src.toks[i].start, src.toks[i + 1].end, name + "_0", "R11",
                   "mut by-value parameter renamed; rebinding inserted at body start")
        ed.insert(src.toks[fn.body[0]].end, "\n        let mut %s = %s_0;" % (name, name), "R11",
                  "rebinding of the former `mut` parameter")
    elif len(plain) == 1:
        # a parameter that the body later shadows (`let mut x = x.to_vec()`): same rewrite without `mut`
        i = plain[0]
        ed.replace(src.toks[i].start, src.toks[i].end, name + "_0", "R11",
                   "parameter renamed (it is shadowed in the body); rebinding inserted at body start")
        ed.insert(src.toks[fn.body[0]].end, "\n        let %s = %s_0;" % (name, name), "R11",
                  "rebinding of the renamed parameter")
    else:
        raise Drift("fn %s: parameter `%s` not found" % (fn.key, name))


def r12_for_bytes_enumerate(src, ed, fn, which):
    """R12: `for (i, b) in s.bytes().enumerate() { BODY }`  ==>
            `let __bytes_b = s.as_bytes(); let mut i: usize = 0; while i < __bytes_b.len() { let b = __bytes_b[i]; BODY i += 1; }`
    (`str::bytes` yields exactly the bytes of `as_bytes()` in order, `enumerate` numbers them from 0).
    Side conditions checked on the token tree: the receiver is a plain identifier, BODY contains no `continue`
    and never assigns `i` or `b`, and `i` is not mentioned after the loop in the function."""
    lp = _find_loop(fn, which)
    if lp["kw"] != "for":
        raise Drift("fn %s: loop %s is not a `for`" % (fn.key, which))
    k = lp["kw_tok"]
    T = src.toks
    pat = ["for", "(", None, ",", None, ")", "in", None, ".", "bytes", "(", ")", ".", "enumerate", "(", ")"]
    for off, want in enumerate(pat):
        if want is not None and T[k + off].text != want:
            raise Drift("fn %s: loop %s is not `for (i, b) in s.bytes().enumerate()`" % (fn.key, which))
    if k + len(pat) != lp["open"]:
        raise Drift("fn %s: loop %s header has trailing tokens" % (fn.key, which))
    i, b, recv = T[k + 2].text, T[k + 4].text, T[k + 7].text
    for t in (T[k + 2], T[k + 4], T[k + 7]):
        if t.kind != "ident":
            raise Drift("fn %s: loop %s: pattern / receiver are not identifiers" % (fn.key, which))
    for j in range(lp["open"] + 1, lp["close"]):
        if T[j].kind == "ident" and T[j].text == "continue":
            raise Drift("fn %s: loop %s body contains `continue` (R12 not applicable)" % (fn.key, which))
        if T[j].kind == "ident" and T[j].text in (i, b) and src.is_(j + 1, "=") and not src.is_(j + 2, "="):
            raise Drift("fn %s: loop %s body assigns the loop variable %s" % (fn.key, which, T[j].text))
    for j in range(lp["close"] + 1, fn.body[1]):
        if T[j].kind == "ident" and T[j].text == i:
            raise Drift("fn %s: `%s` is used after loop %s (R12 would change its meaning)" % (fn.key, i, which))
    ed.replace(T[k].start, T[lp["open"] - 1].end,
               "let __bytes_%s = %s.as_bytes(); let mut %s: usize = 0; while %s < __bytes_%s.len()" % (b, recv, i, i, b),
               "R12", "for over str::bytes().enumerate() as an indexed while loop")
    ed.insert(T[lp["open"]].end, " let %s = __bytes_%s[%s];" % (b, b, i), "R12", "loop variable binding")
    ed.insert(T[lp["close"]].start, "%s += 1; " % i, "R12", "index increment at the end of the body")


if __name__ == "__main__":
    # debugging aid: list items and functions of a file
    p = sys.argv[1]
    s = Src(open(p).read(), p)
    top, fns, conts = index_file(s)
    for it in top:
        print(it.kind, it.name, s.line_of(it.start))
    for k, f in fns.items():
        print("fn", k, [(l["kw"], l["label"], l["ordinal"]) for l in f.loops()])
