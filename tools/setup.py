#!/usr/bin/env python3
"""MANIFEST.setup_cmd: sanity-check the pre-installed tools and warm the build caches under work/ (all of them are
rebuilt on demand by the checks themselves; nothing here is needed for correctness)."""
import os
import shutil
import subprocess
import sys

ROOT = os.path.dirname(os.path.dirname(os.path.abspath(__file__)))
sys.path.insert(0, os.path.join(ROOT, "tools"))
ok = True
for t in ("verus", "cargo", "rustc"):
    if not shutil.which(t):
        print("missing tool:", t)
        ok = False
try:
    subprocess.run(["cargo", "kani", "--version"], capture_output=True, timeout=120, check=True)
except Exception as e:  # noqa
    print("cargo kani not usable:", e)
    ok = False
try:
    import gen_run
    exe, cfg, err = gen_run.build(ROOT, os.environ.get("VERIF_REPO", "/repo"), os.path.join(ROOT, "work", "setup-gen"))
    print("gen unit warm-up:", "ok" if exe else ("skipped: " + str(err)[:300]))
    shutil.rmtree(os.path.join(ROOT, "work", "setup-gen"), ignore_errors=True)
except Exception as e:  # noqa
    print("gen unit warm-up skipped:", e)
print("setup ok" if ok else "setup incomplete")
sys.exit(0 if ok else 1)
