#!/usr/bin/env python3
"""MANIFEST.setup_cmd: nothing to build ahead of time (python + pre-installed verus/kani); sanity-check the tools."""
import shutil, subprocess, sys
ok = True
for t in ("verus", "cargo"):
    if not shutil.which(t):
        print("missing tool:", t); ok = False
try:
    subprocess.run(["cargo", "kani", "--version"], capture_output=True, timeout=120, check=True)
except Exception as e:
    print("cargo kani not usable:", e); ok = False
print("setup ok" if ok else "setup incomplete")
sys.exit(0 if ok else 1)
