#!/usr/bin/env python3
"""Regenerate MANIFEST.json from props.json + not_applicable.json (kept consistent by construction)."""
import json
import os

ROOT = os.path.dirname(os.path.dirname(os.path.abspath(__file__)))
props = json.load(open(os.path.join(ROOT, "props.json")))
na = json.load(open(os.path.join(ROOT, "not_applicable.json")))
all_ids = [json.loads(l)["id"] for l in open(os.path.join(ROOT, "properties.jsonl")) if l.strip()]

checks = []
for pid in sorted(props):
    pc = props[pid]
    engines = sorted(set(u["kind"] for u in pc["units"]))
    checks.append({
        "property_id": pid,
        "quick_cmd": "./check %s --tier quick" % pid,
        "thorough_cmd": "./check %s --tier thorough" % pid,
        "evidence_file": "/verif/evidence/%s.json" % pid,
        "replay_cmd_template": "./check %s --replay {path}" % pid,
        "engine": "+".join(engines),
        "level_claimed": {"category": pc["level"], "text": pc["explanation"], "design_ref": pc.get("design_ref", "DESIGN.md section 5")},
        "level_note": " | ".join(pc.get("assumptions", [])) + " | per-unit assumed contracts are listed in the evidence file",
        "technique": pc.get("technique", "contract-based deductive verification (Verus on mechanically extracted real functions)"),
    })
missing = [i for i in all_ids if i not in props and i not in na]
assert not missing, "properties neither claimed nor not_applicable: %s" % missing
both = [i for i in all_ids if i in props and i in na]
assert not both, both
man = {
    "version": 1,
    "setup_cmd": "python3 tools/setup.py",
    "hooks": {
        "guard": "none",
        "enable": "no source hooks: Verus units are re-extracted from /repo's working tree on every run; Kani harness crates depend on the real crates by path",
        "baseline_off_cmd": "cd /repo && cargo test --workspace --no-fail-fast --offline",
        "source_commits": [],
        "add_only": True,
    },
    "engines": [
        {"name": "verus", "path": "tools/verus_run.py", "serves_properties": sorted(p for p in props if any(u["kind"] == "verus" for u in props[p]["units"])),
         "kind_free_text": "Verus 0.2026.09.13 (deductive, SMT) on functions extracted mechanically from /repo by tools/rsx.py"},
        {"name": "kani", "path": "tools/kani_run.py", "serves_properties": sorted(p for p in props if any(u["kind"] == "kani" for u in props[p]["units"])),
         "kind_free_text": "Kani 0.68 / CBMC 6.11 harness crates under kani/ that depend on the real crates by path (loop-free harnesses complete; others bounded and labelled)"},
    ],
    "checks": checks,
    "notes": "exit codes: 0 pass, 1 VIOLATION, 2 UNDECIDED (never on the unchanged tree). known findings: known-findings.txt. See DESIGN.md.",
    "not_applicable": [{"property_id": k, "reason": na[k]} for k in sorted(na)],
}
json.dump(man, open(os.path.join(ROOT, "MANIFEST.json"), "w"), indent=1)
print("MANIFEST.json: %d checks, %d not_applicable" % (len(checks), len(na)))
