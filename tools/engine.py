#!/usr/bin/env python3
"""Decide a property: run its units against /repo's working tree, attribute failed obligations to
properties by tag, compare with known-findings.txt, write evidence and replay files."""
import hashlib
import json
import os
import re
import shutil
import subprocess
import sys
import time

import rsx
import unit as unitmod
import verus_run
import kani_run
import gen_run

ASSUMPTION_PATTERNS = [r"\bassume\s*\(", r"\badmit\s*\(", r"external_body", r"assume_specification",
                       r"exec_allows_no_decreases_clause", r"#\[verifier::external", r"\bunsafe\b",
                       r"verifier::truncate", r"nonlinear", r"#\[verifier::trusted"]


def load_json(p):
    with open(p) as fh:
        return json.load(fh)


def known_findings(root):
    out = []
    p = os.path.join(root, "known-findings.txt")
    if not os.path.exists(p):
        return out
    for line in open(p):
        line = line.strip()
        if not line or line.startswith("#"):
            continue
        m = re.match(r"^(finding|fixed):\s+property=(C\d+)\s+(.*)$", line)
        if not m:
            continue
        kind, prop, rest = m.groups()
        idm = re.search(r"\bid=(\S+)", rest)
        out.append(dict(kind=kind, prop=prop, id=idm.group(1) if idm else None, text=rest))
    return out


# --------------------------------------------------------------------------------------------
# Verus units
# --------------------------------------------------------------------------------------------
def scan_assumptions(text, allow):
    hits, unknown = [], []
    for ln, line in enumerate(text.split("\n"), 1):
        code = line.split("//")[0]
        for pat in ASSUMPTION_PATTERNS:
            if re.search(pat, code):
                s = " ".join(code.split())
                hits.append(s)
                if not any(a in s for a in allow):
                    unknown.append("line %d: %s" % (ln, s))
                break
    return sorted(set(hits)), unknown


def add_canaries(u):
    """Non-poisoning reachability canaries at every contracted function entry and loop-body entry."""
    n = 0
    extra = []
    for e in list(u.entries):
        h = e.head
        if h[0] in ("fn", "loop") and ("spec" in e.sections or "body" in e.sections):
            if h[0] == "fn" and "requires" not in e.get("spec") and not e.get("body").strip():
                continue
            if "external_body" in e.get("attr"):
                continue   # the body of a trusted function is not verified: no reachability obligation to plant
            n += 1
            cid = "CANARY%d" % n
            ne = rsx.Entry(list(h), e.lineno, e.path)
            ne.sections["body"] = "        proof { if vstd::pervasive::arbitrary::<bool>() { assert(false); } } // @%s %s\n" % (
                cid, " ".join(h))
            ne.canary = cid
            ne.used = True
            extra.append(ne)
    u.entries += extra
    return extra


def run_verus_unit(root, repo, name, tier, seed, work, want_canaries=True):
    """Returns dict(status, ...). status: pass | fail | undecided."""
    udir = os.path.join(root, "units", name)
    cfg = load_json(os.path.join(udir, "unit.json"))
    r = dict(unit=name, kind="verus", status="undecided", reason="", failed=[], obligations=0, discharged=0,
             functions=[], assumptions=[], notes=[], bounded=False, wall_s=0.0, solver_ms=0, cfg=cfg,
             checker_cmd="", samples=[], extraction=None, guards={})
    t0 = time.time()
    os.makedirs(work, exist_ok=True)
    try:
        u = unitmod.Unit(udir, repo)
        text = u.assemble()
    except rsx.Drift as d:
        r["reason"] = "extraction drift: %s" % d
        r["wall_s"] = time.time() - t0
        return r
    path = os.path.join(work, name + ".rs")
    open(path, "w").write(text)
    rep = u.extraction_report()
    json.dump(rep, open(os.path.join(work, "extraction.json"), "w"), indent=1)
    r["extraction"] = dict(items=rep["items"], rewrites=[dict(rule=x["rule"], file=x["file"], line=x["line"],
                                                              before=x["before"][:160], after=x["after"][:160],
                                                              note=x["note"]) for x in rep["rewrites"]],
                           notes=rep["notes"])
    hits, unknown = scan_assumptions(text, cfg.get("allow_assumptions", []))
    r["assumptions"] = hits
    if unknown:
        r["reason"] = "assumption scan: construct not on the allow-list: " + "; ".join(unknown[:5])
        r["wall_s"] = time.time() - t0
        return r
    vr = verus_run.run(path, rlimit=cfg.get("rlimit"))
    r["checker_cmd"] = "cd work/<run> && " + vr.cmd + "   # verus " + vr.version
    r["solver_ms"] = vr.smt_ms
    r["verus_total_ms"] = vr.total_ms
    midx = u.marker_index()
    r["functions"] = sorted(k for k, m in u.fn_meta.items() if m["contract"])
    r["function_sources"] = {k: dict(file=m["origin"], line=m["line"], sha256_16=m["sha"]) for k, m in u.fn_meta.items()}
    slow = {k: v["time_us"] // 1000 for k, v in vr.functions.items() if v["time_us"] > 10_000_000}
    if slow:
        r["notes"].append("functions slower than 10 s: %s" % slow)
    r["per_function"] = {k: dict(ok=v["success"], ms=v["time_us"] // 1000) for k, v in vr.functions.items()}
    r["obligations"] = vr.verified + vr.errors
    r["discharged"] = vr.verified
    if vr.status == "undecided":
        r["reason"] = vr.reason
        r["detail"] = [f.get("rendered", "")[:1500] for f in vr.failures[:5]]
        r["wall_s"] = time.time() - t0
        return r
    if vr.status == "fail":
        if getattr(vr, "limit_note", ""):
            r["notes"].append(vr.limit_note)
        drift_fail = False
        for f in vr.failures:
            if not f.get("is_verification_failure"):
                continue
            key = None
            for (ls, le, prim, label) in sorted(f["spans"], key=lambda s: not s[2]):
                key = u.fn_at_line(midx, ls)
                if key:
                    break
            meta = u.fn_meta.get(key, {})
            tags = f["clause_tags"] or meta.get("tags", []) or cfg.get("default_tags", [])
            clause = ""
            for (ls, le, prim, label) in f["spans"]:
                if label and ("failed" in label):
                    clause = " ".join(text.split("\n")[ls - 1].split()) + (" ..." if le > ls else "")
            oid = "%s:%s:%s" % (name, key or "?", hashlib.sha1((f["message"] + "|" + re.sub(r"//.*", "", clause)).encode()).hexdigest()[:8])
            if meta.get("drifted"):
                drift_fail = True
            r["failed"].append(dict(id=oid, function=key, message=f["message"], clause=clause, tags=tags,
                                    drifted=bool(meta.get("drifted")), output=f["rendered"]))
        if not r["failed"]:
            r["reason"] = "verus reported errors that could not be attributed: " + vr.stderr_tail[-300:]
            r["wall_s"] = time.time() - t0
            return r
        r["status"] = "fail"
        if drift_fail and all(x["drifted"] for x in r["failed"]):
            r["status"] = "undecided"
            r["reason"] = ("loop structure of %s changed; its contract no longer attaches, so the failed "
                           "obligations are undecided" % sorted(set(x["function"] for x in r["failed"])))
    else:
        r["status"] = "pass"
        # vacuity guard 1: obligation count
        if vr.verified < cfg.get("min_verified", 1):
            r["status"] = "undecided"
            r["reason"] = "vacuity guard: only %d functions verified, expected >= %d" % (vr.verified, cfg["min_verified"])
        r["guards"]["verified_functions"] = vr.verified
        r["guards"]["min_expected"] = cfg.get("min_verified", 1)
        if vr.smt_ms <= 0:
            r["status"] = "undecided"
            r["reason"] = "vacuity guard: no SMT time reported"
    # vacuity guard 2: reachability canaries (only meaningful when the unit itself verifies)
    if r["status"] == "pass" and want_canaries and cfg.get("canaries", True):
        try:
            cu = unitmod.Unit(udir, repo)
            cu.load()
            extra = add_canaries(cu)
            cu.load = lambda: None
            ctext = cu.assemble()
            cpath = os.path.join(work, name + "_canary.rs")
            open(cpath, "w").write(ctext)
            cvr = verus_run.run(cpath, rlimit=cfg.get("rlimit"))
            lines = ctext.split("\n")
            want = {}
            for i, l in enumerate(lines, 1):
                m = re.search(r"@(CANARY\d+) (.*)$", l)
                if m:
                    want[i] = (m.group(1), m.group(2))
            fired = set()
            for f in cvr.failures:
                if "assertion failed" in f["message"]:
                    for (ls, le, prim, label) in f["spans"]:
                        if ls in want:
                            fired.add(ls)
            missing = [want[i] for i in want if i not in fired]
            r["guards"]["canaries_planted"] = len(want)
            r["guards"]["canaries_fired"] = len(fired)
            r["solver_ms"] += cvr.smt_ms
            if missing:
                r["status"] = "undecided"
                r["reason"] = "vacuity guard: reachability canaries did not fire (contradictory context?): %s" % missing[:5]
        except rsx.Drift as d:
            r["status"] = "undecided"
            r["reason"] = "canary assembly drift: %s" % d
    if r["status"] in ("pass",) and (tier == "thorough" or cfg.get("quick_mutants")):
        thorough_verus(root, repo, name, cfg, text, work, r)
    r["samples"] = [dict(obligation="%s: %s" % (k, "verified" if v["ok"] else "FAILED"), ms=v["ms"])
                    for k, v in sorted(r["per_function"].items())][:40]
    r["wall_s"] = time.time() - t0
    return r


def thorough_verus(root, repo, name, cfg, text, work, r):
    """Mutation self-test on the assembled text (never on /repo) and an rlimit stability run."""
    mpath = os.path.join(root, "units", name, "mutants.json")
    killed, survived, skipped = [], [], []
    if os.path.exists(mpath):
        muts = load_json(mpath)
        import concurrent.futures

        def one(m):
            if text.count(m["find"]) != m.get("count", 1):
                return (m["id"], "skipped")
            t2 = text.replace(m["find"], m["replace"])
            d = os.path.join(work, "mut_" + m["id"])
            os.makedirs(d, exist_ok=True)
            p = os.path.join(d, name + ".rs")
            open(p, "w").write(t2)
            v = verus_run.run(p, rlimit=cfg.get("rlimit"))
            shutil.rmtree(d, ignore_errors=True)
            return (m["id"], "killed" if v.status == "fail" else ("survived" if v.status == "pass" else "undecided:" + v.reason[:80]))
        with concurrent.futures.ThreadPoolExecutor(max_workers=8) as ex:
            for mid, st in ex.map(one, muts):
                (killed if st == "killed" else skipped if st == "skipped" else survived).append(mid if st in ("killed", "skipped") else "%s(%s)" % (mid, st))
    r["guards"]["mutants_killed"] = len(killed)
    r["guards"]["mutants_survived"] = survived
    r["guards"]["mutants_skipped"] = skipped
    if survived:
        r["notes"].append("self-test: contract mutants not rejected: %s" % survived)
    if os.path.exists(mpath) and not killed and not skipped:
        r["status"] = "undecided"
        r["reason"] = "vacuity guard: none of the unit's contract mutants is rejected (the contracts constrain nothing?)"
    # stability: half the default rlimit
    p = os.path.join(work, name + ".rs")
    v = verus_run.run(p, rlimit=max(1, int(cfg.get("rlimit", 10)) // 2))
    r["guards"]["stable_at_half_rlimit"] = (v.status == "pass")
    if v.status != "pass":
        r["notes"].append("stability: proof does not survive half the rlimit (%s)" % (v.reason or v.status))


# --------------------------------------------------------------------------------------------
# native units: the real functions, extracted verbatim, compiled with rustc and run (bounded exhaustive
# search + replay of failing inputs).  Always labelled bounded; also the counterexample source for a
# Verus unit whose proof fails.
# --------------------------------------------------------------------------------------------
def build_native(root, repo, name, work):
    udir = os.path.join(root, "units", name, "native")
    os.makedirs(work, exist_ok=True)
    u = unitmod.Unit(udir, repo)
    text = u.assemble()
    src = os.path.join(work, name + "_native.rs")
    open(src, "w").write(text)
    exe = os.path.join(work, name + "_native")
    p = subprocess.run(["rustc", "-O", "--edition", "2021", "-A", "warnings", src, "-o", exe], capture_output=True, text=True, timeout=300)
    if p.returncode != 0:
        raise rsx.Drift("native build failed: " + p.stderr[-800:])
    return exe, u


def run_native_unit(root, repo, us, prop, tier, seed, work):
    name = us["name"]
    cfg = load_json(os.path.join(root, "units", name, "native", "unit.json"))
    r = dict(unit="native/" + name, kind="native", status="undecided", reason="", failed=[], obligations=0, discharged=0,
             functions=cfg.get("functions", []), assumptions=[], notes=[], bounded=True, bounds="", wall_s=0.0,
             solver_ms=0, cfg=cfg, checker_cmd="", samples=[], guards={}, evaluations=0, distinct_nontrivial=0)
    t0 = time.time()
    try:
        exe, u = build_native(root, repo, name, work)
    except rsx.Drift as d:
        r["reason"] = "native extraction/build: %s" % d
        return r
    args = cfg["search_args_thorough"] if tier == "thorough" else cfg["search_args"]
    r["bounds"] = cfg["bounds_thorough"] if tier == "thorough" else cfg["bounds"]
    r["checker_cmd"] = "rustc -O <extracted real functions + driver> && ./%s_native %s" % (name, " ".join(args))
    try:
        p = subprocess.run([exe] + args, capture_output=True, text=True, timeout=cfg.get("timeout_s", 600))
    except subprocess.TimeoutExpired:
        r["reason"] = "native search timed out"
        return r
    out = p.stdout
    m = re.search(r"searched (\d+) sets", out)
    mc = re.search(r"checked (\d+) sets", out)
    n = int(m.group(1)) if m else (int(mc.group(1)) if mc else 0)
    r["evaluations"] = n
    r["distinct_nontrivial"] = n
    r["obligations"] = n
    fi = re.search(r"FAILING-INPUT: (.*)", out)
    if fi:
        arg = re.search(r"REPLAY-ARG: (.*)", out)
        r["discharged"] = max(0, n - 1)
        r["status"] = "fail"
        r["failed"].append(dict(id="native/%s:%s" % (name, cfg.get("obligation", "contract")), function=cfg.get("obligation", ""),
                                message=fi.group(1), clause="", tags=cfg.get("tags", []), output=out[-2000:],
                                counterexample=fi.group(1),
                                replay_native=dict(unit=name, arg=arg.group(1).strip() if arg else "")))
    elif p.returncode == 0 and n > 0:
        r["discharged"] = n
        r["status"] = "pass"
    else:
        r["reason"] = "native search gave no result: " + (out + p.stderr)[-400:]
    r["samples"] = [dict(obligation=out.strip().splitlines()[-1] if out.strip() else "", ms=int((time.time() - t0) * 1000))]
    r["function_sources"] = {k: dict(file=m_["origin"], line=m_["line"], sha256_16=m_["sha"]) for k, m_ in u.fn_meta.items()}
    r["wall_s"] = time.time() - t0
    return r


def native_counterexample(root, repo, name, work):
    """Search a failing input for a Verus unit that failed (time-boxed)."""
    try:
        cfg = load_json(os.path.join(root, "units", name, "native", "unit.json"))
        exe, _ = build_native(root, repo, name, work)
        p = subprocess.run([exe] + cfg["search_args_thorough"], capture_output=True, text=True, timeout=120)
        fi = re.search(r"FAILING-INPUT: (.*)", p.stdout)
        arg = re.search(r"REPLAY-ARG: (.*)", p.stdout)
        if fi:
            return fi.group(1), dict(unit=name, arg=arg.group(1).strip() if arg else "")
    except Exception as e:  # noqa
        return None, None
    return None, None


def replay_native(root, repo, d):
    rn = d["replay_native"]
    work = os.path.join(root, "work", "replay-%d" % os.getpid())
    try:
        exe, _ = build_native(root, repo, rn["unit"], work)
        p = subprocess.run([exe, "replay", rn["arg"]], capture_output=True, text=True, timeout=120)
        print(p.stdout.strip())
        if "FAILING-INPUT" in p.stdout:
            print("REPLAY: the failing input reproduces on the real code")
            return 1
        return 0 if p.returncode == 0 else 2
    except rsx.Drift as e:
        print("replay could not be built: %s" % e)
        return 2
    finally:
        shutil.rmtree(work, ignore_errors=True)


# --------------------------------------------------------------------------------------------
# property level
# --------------------------------------------------------------------------------------------
def check_property(root, repo, prop, tier, seed, keep=False):
    props = load_json(os.path.join(root, "props.json"))
    if prop not in props:
        print("unknown or not-applicable property %s (see MANIFEST.json not_applicable)" % prop)
        return 2
    pc = props[prop]
    t0 = time.time()
    work = os.path.join(root, "work", "%s-%s-%d" % (prop, tier, os.getpid()))
    shutil.rmtree(work, ignore_errors=True)
    os.makedirs(work)
    results = []
    for us in pc["units"]:
        if us.get("tier") == "thorough" and tier != "thorough":
            continue
        if us["kind"] == "verus":
            results.append(run_verus_unit(root, repo, us["name"], tier, seed, os.path.join(work, us["name"])))
        elif us["kind"] == "gen":
            results.append(gen_run.run_gen_unit(root, repo, us, prop, tier, seed, os.path.join(work, "gen")))
        elif us["kind"] == "native":
            results.append(run_native_unit(root, repo, us, prop, tier, seed, os.path.join(work, "native_" + us["name"])))
        elif us["kind"] == "kani":
            results.append(kani_run.run_kani_unit(root, repo, us, prop, tier, seed, os.path.join(work, "kani_" + us["name"])))
        else:
            raise SystemExit("bad unit kind")
    # fallback units: a (slower, bounded) unit of the thorough tier that also decides what a Verus unit decides is run in the
    # quick tier too when that Verus unit came back undecided (the changed code fell outside Verus' subset or the contract no
    # longer attaches): better a slow bounded answer than "undecided"
    if tier != "thorough":
        for us in pc["units"]:
            fb = us.get("fallback_for")
            if fb and us.get("tier") == "thorough" and any(r["unit"] == fb and r["kind"] == "verus" and r["status"] == "undecided" for r in results):
                if us["kind"] == "kani":
                    r2 = kani_run.run_kani_unit(root, repo, us, prop, "quick", seed, os.path.join(work, "kani_" + us["name"]))
                    r2.setdefault("notes", []).append("run as fallback because Verus unit %s was undecided" % fb)
                    results.append(r2)
    for r in results:
        if r["kind"] == "verus" and r["failed"] and r["cfg"].get("native_cex"):
            cex, rn = native_counterexample(root, repo, r["unit"], os.path.join(work, "cex_" + r["unit"]))
            if cex:
                for f in r["failed"]:
                    if f.get("function") in r["cfg"]["native_cex"]:
                        f["counterexample"] = cex
                        f["replay_native"] = rn
    # a Verus failure carries no input; when the bounded run of the generated parsers (same run, same tree) found a failing
    # input for the same property, attach it to the proof failure as its replayable counterexample
    gen_fails = [f for r in results if r["unit"] == "native/gen" for f in r["failed"]]
    for r in results:
        if r["kind"] == "verus":
            for f in r["failed"]:
                if not f.get("counterexample"):
                    for g in gen_fails:
                        if set(g["tags"]) & set(f["tags"]):
                            f["counterexample"] = g["counterexample"] + "  (found by the bounded run U5 with the changed runtime: " + g["message"][:300] + ")"
                            f["replay_gen"] = g.get("replay_gen")
                            break
    kf = known_findings(root)
    listed = {(k["prop"], k["id"]): k for k in kf if k["kind"] == "finding"}
    relevant, others, known_hit = [], [], []
    for r in results:
        for f in r["failed"]:
            if prop in f["tags"]:
                if (prop, f["id"]) in listed:
                    known_hit.append((f, listed[(prop, f["id"])]))
                else:
                    relevant.append((r, f))
            else:
                others.append((r, f))
    undecided = [r for r in results if r["status"] == "undecided"]
    wall = time.time() - t0
    # ---- report
    rc = 0
    replay_paths = []
    for (f, k) in known_hit:
        print("KNOWN-FINDING: property=%s %s" % (prop, k["text"]))
    if relevant:
        os.makedirs(os.path.join(root, "replays"), exist_ok=True)
        for (r, f) in relevant:
            rp = os.path.join(root, "replays", "%s-%s.json" % (prop, f["id"].replace(":", "_").replace("/", "_")))
            cex = f.get("counterexample")
            json.dump(dict(property=prop, unit=r["unit"], engine=r["kind"], obligation=f["id"], function=f.get("function"),
                           message=f["message"], clause=f.get("clause", ""), tags=f["tags"],
                           failing_input=cex, replay_test=f.get("replay_test"), replay_native=f.get("replay_native"), replay_gen=f.get("replay_gen"),
                           verifier_output=f.get("output", "")[:20000],
                           how_to_replay="./check %s --replay %s" % (prop, rp)), open(rp, "w"), indent=1)
            replay_paths.append(rp)
            tail = "" if cex else " no-failing-input-found"
            print("failed obligation [%s] %s: %s %s" % (f["id"], f.get("function"), f["message"], f.get("clause", "")[:160]))
            print("VIOLATION property=%s replay=%s%s" % (prop, rp, tail))
        rc = 1
    elif undecided:
        for r in undecided:
            print("UNDECIDED property=%s unit=%s: %s" % (prop, r["unit"], r["reason"]))
            for d in r.get("detail", [])[:3]:
                print(d)
        rc = 2
    for (r, f) in others[:10]:
        print("NOTE: obligation of other properties failing in the same unit: [%s] tags=%s %s" % (f["id"], ",".join(f["tags"]), f["message"]))
    write_evidence(root, prop, pc, tier, seed, results, relevant, others, known_hit, undecided, wall, rc)
    if rc == 0:
        print("PASS property=%s tier=%s units=%s obligations=%d wall=%.1fs" % (
            prop, tier, ",".join(r["unit"] for r in results), sum(r["obligations"] for r in results), wall))
    if not keep:
        shutil.rmtree(work, ignore_errors=True)
        try:
            os.rmdir(os.path.join(root, "work"))
        except OSError:
            pass
    return rc


def write_evidence(root, prop, pc, tier, seed, results, relevant, others, known_hit, undecided, wall, rc):
    evdir = os.environ.get("VERIF_EVIDENCE_DIR") or os.path.join(root, "evidence")
    os.makedirs(evdir, exist_ok=True)
    proofs = [r for r in results if not r["bounded"]]
    bounded = [r for r in results if r["bounded"]]
    level = pc["level"]
    cov = {}
    trusted = list(pc.get("trusted_base", []))
    for r in results:
        trusted += r["cfg"].get("trusted_base", [])
    obligations = sum(r["obligations"] for r in proofs)
    discharged = sum(r["discharged"] for r in proofs)
    samples = []
    for r in results:
        samples += [dict(unit=r["unit"], **s) if isinstance(s, dict) else s for s in r["samples"][:25]]
    if level == "proof":
        cov.update(obligations=obligations, discharged=discharged,
                   checker_cmd=" ; ".join(r["checker_cmd"] for r in proofs if r["checker_cmd"]) or "n/a",
                   trusted_base=sorted(set(trusted)))
    else:
        evals = sum(r.get("evaluations", r["obligations"]) for r in results)
        nontriv = sum(r.get("distinct_nontrivial", 0) for r in results)
        cov.update(evaluations=evals, distinct_nontrivial=nontriv,
                   rule=pc.get("rule", ""), trusted_base=sorted(set(trusted)),
                   obligations=sum(r["obligations"] for r in results), discharged=sum(r["discharged"] for r in results),
                   checker_cmd=" ; ".join(r["checker_cmd"] for r in results if r["checker_cmd"]))
    cov["samples"] = samples or ["(no obligations ran)"]
    cov["units"] = [dict(unit=r["unit"], engine=r["kind"], status=r["status"], reason=r["reason"], bounded=r["bounded"],
                         bounds=r.get("bounds", ""), obligations=r["obligations"], discharged=r["discharged"],
                         functions_under_contract=r["functions"], function_sources=r.get("function_sources", {}),
                         solver_ms=r["solver_ms"], wall_s=round(r["wall_s"], 2), guards=r["guards"], notes=r["notes"],
                         harnesses=r.get("harnesses", []),
                         extraction=r.get("extraction")) for r in results]
    cov["bounded_standins"] = [dict(unit=r["unit"], bounds=r.get("bounds", ""), harnesses=r.get("harnesses", []))
                               for r in bounded]
    cov["failed_obligations_of_this_property"] = [dict(id=f["id"], message=f["message"], clause=f.get("clause", "")) for (_, f) in relevant]
    cov["known_findings_reproduced"] = [k["text"] for (_, k) in known_hit]
    cov["other_failing_obligations"] = [dict(id=f["id"], tags=f["tags"], message=f["message"]) for (_, f) in others]
    cov["exit_code"] = rc
    cov["explanation"] = pc.get("explanation", "")
    assumptions = list(pc.get("assumptions", []))
    for r in results:
        assumptions += ["[%s] %s" % (r["unit"], a) for a in r["assumptions"]]
        assumptions += ["[%s] %s" % (r["unit"], a) for a in r["cfg"].get("assumed_contracts", [])]
    ev = dict(property_id=prop, tier=tier, seed=seed, level=level, coverage=cov, assumptions=assumptions,
              wall_s=round(wall, 2), violations=len(relevant))
    tmp = os.path.join(evdir, prop + ".json.tmp")
    json.dump(ev, open(tmp, "w"), indent=1)
    os.replace(tmp, os.path.join(evdir, prop + ".json"))


def replay(root, repo, prop, path):
    d = load_json(path)
    print("replay of %s: obligation %s (%s)" % (prop, d.get("obligation"), d.get("message")))
    if d.get("replay_test"):
        return kani_run.run_replay_test(root, repo, d)
    if d.get("replay_gen"):
        rc = gen_run.replay(root, repo, d)
        if rc == 1:
            print("VIOLATION property=%s replay=%s" % (prop, path))
        return rc
    if d.get("replay_native"):
        rc = replay_native(root, repo, d)
        if rc == 1:
            print("VIOLATION property=%s replay=%s" % (prop, path))
        return rc
    print("no failing input was found by the verifier for this obligation; re-running the check that reported it")
    props = load_json(os.path.join(root, "props.json"))
    rc = check_property(root, repo, prop, "quick", 0)
    return rc
