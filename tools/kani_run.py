#!/usr/bin/env python3
"""Kani units: harness crates under kani/<unit>/ that depend on the REAL crates of /repo by path.

unit.json:
  {"crate_dir": "harness", "bounded": true|false, "bounds": "...",
   "harnesses": [{"name": "...", "props": ["C08","C09"], "tier": "quick"|"thorough", "default_tags": [...],
                  "bounded": true, "bounds": "..."}],
   "timeout_s": 900, "jobs": 4, "extra_args": [...]}

A failed check is attributed to the properties named at the start of its assertion message
(`assert!(c, "C09 ...")`); checks without ids (panics, overflow, index) get the harness' default_tags.
"""
import hashlib
import json
import os
import re
import shutil
import subprocess
import time


def _slug(desc):
    words = re.findall(r"[A-Za-z0-9]+", re.sub(r"\bC\d+\b", "", desc).lower())
    return "-".join(words[:7]) or "check"


def prepare_crate(root, repo, name, cfg, work):
    udir = os.path.join(root, "kani", name)
    crate_src = os.path.join(udir, cfg.get("crate_dir", "harness"))
    crate = os.path.join(work, "crate")
    shutil.rmtree(crate, ignore_errors=True)
    shutil.copytree(crate_src, crate, ignore=shutil.ignore_patterns("target", "Cargo.toml"))
    tin = open(os.path.join(crate_src, "Cargo.toml.in")).read()
    open(os.path.join(crate, "Cargo.toml"), "w").write(tin.replace("@REPO@", os.path.abspath(repo)).replace("@UNIT@", udir))
    # in-crate harness modules: verbatim copy of a real source file + appended #[cfg(kani)] module
    for spec in cfg.get("assemble", []):
        src = open(os.path.join(repo, spec["source"])).read()
        extra = open(os.path.join(udir, spec["append"])).read()
        dst = os.path.join(crate, spec["dest"])
        os.makedirs(os.path.dirname(dst), exist_ok=True)
        open(dst, "w").write(src + "\n// ---- appended by /verif (harness only; the text above is the real file, verbatim) ----\n" + extra)
    return crate


def target_dir(root, name, repo):
    tag = hashlib.sha1(os.path.abspath(repo).encode()).hexdigest()[:8]
    d = os.path.join(root, "work", "kani-target", "%s-%s" % (name, tag))
    os.makedirs(d, exist_ok=True)
    return d


def run_kani_unit(root, repo, us, prop, tier, seed, work):
    name = us["name"]
    udir = os.path.join(root, "kani", name)
    cfg = json.load(open(os.path.join(udir, "unit.json")))
    r = dict(unit="kani/" + name, kind="kani", status="undecided", reason="", failed=[], obligations=0, discharged=0,
             functions=cfg.get("functions_under_contract", []), assumptions=[], notes=[],
             bounded=bool(cfg.get("bounded", True)), bounds=cfg.get("bounds", ""),
             wall_s=0.0, solver_ms=0, cfg=cfg, checker_cmd="", samples=[], guards={}, harnesses=[],
             evaluations=0, distinct_nontrivial=0)
    t0 = time.time()
    os.makedirs(work, exist_ok=True)
    hs = [h for h in cfg["harnesses"] if prop in h["props"] and (h.get("tier", "quick") == "quick" or tier == "thorough")]
    if us.get("only"):
        hs = [h for h in hs if h["name"] in us["only"]]
    if not hs:
        r["reason"] = "no harness of unit %s serves %s" % (name, prop)
        return r
    try:
        crate = prepare_crate(root, repo, name, cfg, work)
    except OSError as e:
        r["reason"] = "cannot assemble harness crate: %s" % e
        return r
    tdir = target_dir(root, name, repo)
    export = os.path.join(work, "kani-export.json")
    env = dict(os.environ, CARGO_NET_OFFLINE="true", CARGO_TARGET_DIR=tdir)
    timeout = cfg.get("timeout_s", 900) * (3 if tier == "thorough" else 1)

    def invoke(names, playback_mode, exp, tmo):
        args = ["cargo", "kani"]
        for n in names:
            args += ["--harness", n]
        if playback_mode:
            args += ["-Z", "concrete-playback", "--concrete-playback=print"]
        else:
            args += ["-j", str(min(len(names), cfg.get("jobs", 4)))]
        args += ["--output-format", "terse", "-Z", "unstable-options", "--export-json", exp]
        args += cfg.get("extra_args", [])
        try:
            p = subprocess.run(args, cwd=crate, env=env, capture_output=True, text=True, timeout=tmo)
            return args, p.stdout + "\n" + p.stderr
        except subprocess.TimeoutExpired:
            subprocess.run(["pkill", "-f", tdir], capture_output=True)
            return args, None

    args, out = invoke([h["name"] for h in hs], False, export, timeout)
    r["checker_cmd"] = "cd kani/%s/<crate> && CARGO_NET_OFFLINE=true %s" % (name, " ".join(args).replace(export, "<export.json>"))
    if out is None:
        r["reason"] = "cargo kani timed out after %d s (undecided)" % timeout
        r["wall_s"] = time.time() - t0
        return r
    open(os.path.join(work, "kani.log"), "w").write(out)
    if not os.path.exists(export):
        r["reason"] = "cargo kani produced no result file (build error?): " + out[-1500:]
        r["wall_s"] = time.time() - t0
        return r
    ex = json.load(open(export))
    playback = {}
    failing = [x["harness_id"].split("::")[-1] for x in ex.get("verification_results", {}).get("results", [])
               if any(c.get("status", "").upper() == "FAILURE" and "unwinding assertion" not in c.get("description", "")
                      for c in x.get("checks", []))]
    if failing:
        # second, sequential run of the failing harnesses only, asking CBMC for concrete counterexamples
        # (time-boxed: a violation is reported with or without a failing input)
        _, out2 = invoke(failing[:1], True, os.path.join(work, "kani-export-playback.json"), cfg.get("playback_timeout_s", 900))
        if out2:
            open(os.path.join(work, "kani-playback.log"), "w").write(out2)
            playback = parse_playback(out2)
        else:
            r["notes"].append("counterexample extraction timed out")
    by_h = {x["harness_id"].split("::")[-1]: x for x in ex.get("verification_results", {}).get("results", [])}
    stats = {x["harness_id"].split("::")[-1]: x for x in ex.get("cbmc", [])}
    hmeta = {h["name"]: h for h in hs}
    undecided = []
    for h in hs:
        res = by_h.get(h["name"])
        if res is None:
            undecided.append("%s: no result" % h["name"])
            continue
        checks = res.get("checks", [])
        nfail = nok = nund = nreach = 0
        for c in checks:
            st = c.get("status", "").upper()
            desc = c.get("description", "")
            if st == "SUCCESS":
                nok += 1
            elif st == "UNREACHABLE":
                nreach += 1
            elif st == "FAILURE":
                nfail += 1
                if "unwinding assertion" in desc:
                    undecided.append("%s: unwinding bound too small (%s)" % (h["name"], c.get("function", "")))
                    continue
                tm = re.match(r"^[\s\"]*((?:C\d+\s+)+)", desc + " ")
                tags = re.findall(r"C\d+", tm.group(1)) if tm else []
                if not tags:
                    tags = h.get("default_tags", h["props"])
                oid = "kani/%s:%s:%s" % (name, h["name"], _slug(desc))
                pb = playback.get((h["name"], desc.strip('"')))
                loc = "%s:%s" % (c.get("file", c.get("location", {}).get("file", "")), c.get("line", ""))
                r["failed"].append(dict(id=oid, function=h["name"], message=desc.strip('"'), clause="", tags=tags,
                                        output="Kani/CBMC: check FAILED in harness %s\n  description: %s\n  function: %s\n  location: %s\n" % (
                                            h["name"], desc, c.get("function", ""), json.dumps(c.get("location", loc))),
                                        counterexample=(pb and pb["values_comment"]) or None,
                                        replay_test=(pb and dict(unit=name, harness=h["name"], test_name=pb["name"], code=pb["code"])) or None))
            else:
                nund += 1
        if nund and not nfail:
            undecided.append("%s: %d checks undetermined" % (h["name"], nund))
        cs = stats.get(h["name"], {}).get("cbmc_stats", {})
        solver_s = sum(float(cs.get(k, 0) or 0) for k in ("runtime_symex_s", "runtime_convert_ssa_s", "runtime_solver_s",
                                                           "runtime_decision_procedure_s", "runtime_post_process_s"))
        r["solver_ms"] += int(solver_s * 1000)
        r["obligations"] += nok + nfail + nund
        r["discharged"] += nok
        r["evaluations"] += 1
        if nok > 0:
            r["distinct_nontrivial"] += 1
        r["harnesses"].append(dict(name=h["name"], status=res.get("status"), checks=len(checks), passed=nok, failed=nfail,
                                   unreachable=nreach, undetermined=nund, bounded=h.get("bounded", cfg.get("bounded", True)),
                                   bounds=h.get("bounds", cfg.get("bounds", "")), duration_ms=res.get("duration_ms"),
                                   vccs=cs.get("vccs_generated")))
        r["samples"].append(dict(obligation="harness %s: %d/%d checks passed (%s)" % (
            h["name"], nok, nok + nfail + nund, "bounded: " + h.get("bounds", cfg.get("bounds", "")) if h.get("bounded", cfg.get("bounded", True)) else "loop-free, full domain"),
            ms=res.get("duration_ms")))
        # vacuity guard: a harness with (almost) no reachable checks proves nothing
        if nok + nfail < h.get("min_checks", 10):
            undecided.append("%s: vacuity guard, only %d reachable checks" % (h["name"], nok + nfail))
    r["guards"]["harnesses_run"] = len(r["harnesses"])
    if r["failed"]:
        r["status"] = "fail"
    elif undecided:
        r["status"] = "undecided"
        r["reason"] = "; ".join(undecided[:6])
    else:
        r["status"] = "pass"
    if undecided and r["failed"]:
        r["notes"] += undecided
    r["wall_s"] = time.time() - t0
    return r


def parse_playback(out):
    """Concrete playback tests printed by Kani: {(harness, check description): dict(name, code, values_comment)}"""
    res = {}
    for m in re.finditer(r"Concrete playback unit test for `([^`]+)`:\s*```\n(.*?)```", out, re.S):
        harness = m.group(1).split("::")[-1]
        code = m.group(2)
        dm = re.search(r"Check for `[^`]*`: \"\"?(.*?)\"?\"\s*$", code, re.M)
        desc = dm.group(1).strip('"') if dm else ""
        nm = re.search(r"fn (kani_concrete_playback_\w+)\(", code)
        vals = re.findall(r"^\s*// (.+)$", code, re.M)
        res[(harness, desc)] = dict(name=nm.group(1) if nm else "", code=code,
                                    values_comment="kani::any() values in draw order: " + ", ".join(vals))
    return res


def run_replay_test(root, repo, d):
    """Replay a Kani counterexample natively against the real crate: `cargo kani playback`."""
    rt = d["replay_test"]
    name = rt["unit"]
    udir = os.path.join(root, "kani", name)
    cfg = json.load(open(os.path.join(udir, "unit.json")))
    work = os.path.join(root, "work", "replay-%d" % os.getpid())
    shutil.rmtree(work, ignore_errors=True)
    os.makedirs(work)
    try:
        crate = prepare_crate(root, repo, name, cfg, work)
        lib = os.path.join(crate, cfg.get("playback_file", "src/lib.rs"))
        s = open(lib).read()
        if "// @PLAYBACK@" not in s:
            print("harness crate has no playback anchor")
            return 2
        open(lib, "w").write(s.replace("// @PLAYBACK@", rt["code"] + "\n// @PLAYBACK@"))
        env = dict(os.environ, CARGO_NET_OFFLINE="true", CARGO_TARGET_DIR=target_dir(root, name + "-playback", repo))
        p = subprocess.run(["cargo", "kani", "playback", "-Z", "concrete-playback", "--", rt["test_name"]],
                           cwd=crate, env=env, capture_output=True, text=True, timeout=1200)
        out = p.stdout + p.stderr
        print(out[-3000:])
        if re.search(r"test result: FAILED|panicked at", out):
            print("REPLAY: the counterexample reproduces on the real code (harness %s)" % rt["harness"])
            print("VIOLATION property=%s replay=%s" % (d["property"], "(replayed)"))
            return 1
        if "test result: ok" in out:
            print("REPLAY: the counterexample no longer reproduces")
            return 0
        print("REPLAY: could not run the playback test")
        return 2
    finally:
        shutil.rmtree(work, ignore_errors=True)
