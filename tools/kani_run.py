#!/usr/bin/env python3
"""Kani units (stub, filled in below)."""
def run_kani_unit(root, repo, us, prop, tier, seed, work):
    raise SystemExit("kani units not built yet")
def run_replay_test(root, repo, d):
    raise SystemExit("kani units not built yet")
