// Verus unit U8: the precedence arithmetic of the built-in lexer's `match` block (C09 mechanism "precedence =
// rung*2 + base_precedence; catch-all rung").  TerminalLiteral::base_precedence is extracted whole; four statements of
// MatchBlock::{new, add_match_entry, add_literal_from_grammar} (lalrpop/src/normalize/token_check/mod.rs) are extracted
// verbatim on every run (R15) into wrappers whose parameters are the statements' free variables.
#![allow(unused_imports, dead_code, unused_variables)]
//@ source pt lalrpop/src/grammar/parse_tree.rs
//@ source dfa lalrpop/src/lexer/dfa/mod.rs
//@ source tc lalrpop/src/normalize/token_check/mod.rs
use vstd::prelude::*;

verus! {

/// stands for string_cache's `Atom` (only carried around, never inspected)
#[derive(Clone, Hash, PartialEq, Eq, PartialOrd, Ord)]
pub struct Atom { pub id: u64 }

//@ item dfa struct Precedence
//@ item pt enum TerminalLiteral
//@ item pt impl TerminalLiteral only=base_precedence
//@ item pt enum TerminalString strip_attrs
//@ item pt enum MatchMapping strip_attrs
//@ item pt struct MatchEntry strip_attrs

// ------------------------------ the documented formula ------------------------------
/// "a quoted literal before a regex in the same rung"
pub open spec fn base(l: TerminalLiteral) -> int { if l is Quoted { 1 } else { 0 } }
/// parse_tree.rs: "the formula is `G*2 + IP`" (G the group of the rung, IP 1 for literals and 0 for regexes)
pub open spec fn entry_prec(group: int, l: TerminalLiteral) -> int { group * 2 + base(l) }

/// C09's ordering, as a consequence of what the extracted code is proved to compute: `gi`, `gj` are the groups of
/// two rungs as `rung_precedence_pair` relates them (earlier rung: higher group; all groups above 0)
pub proof fn lemma_documented_precedence(gi: int, gj: int, a: TerminalLiteral, b: TerminalLiteral)
    requires gi >= gj > 0,
    ensures
        // an entry of an earlier rung beats any entry of a later rung
        gi > gj ==> entry_prec(gi, a) > entry_prec(gj, b),
        // in one rung a quoted literal beats a regex, two literals / two regexes tie
        gi == gj && a is Quoted && b is Regex ==> entry_prec(gi, a) > entry_prec(gj, b),
        gi == gj && (a is Quoted <==> b is Quoted) ==> entry_prec(gi, a) == entry_prec(gj, b),
        // without a match block (`catch_all = Precedence(0)`) literals still beat regexes ..
        a is Quoted && b is Regex ==> entry_prec(0, a) > entry_prec(0, b),
        // .. and every entry of a rung beats every entry of group 0
        entry_prec(gj, a) > entry_prec(0, b),
{}

/// stands for `match_token` (only `.contents.len()` is read)
pub struct MatchTokenStandIn { pub contents: Vec<u8> }
/// stands for `MatchBlock` (the fields the statements touch)
pub struct MatchBlockStandIn { pub match_entries: Vec<MatchEntry>, pub catch_all: Option<Precedence> }

// MatchBlock::new: precedence of the rung being read.  Context: `idx` comes from `contents.iter().enumerate()`.
// The contract is relational (the numbering itself is not documented, its order is): every rung is above group 0,
// the group of terminals when there is no match block ..
/*<fn:MatchBlock::new#precedence>*/
fn rung_precedence(match_token: &MatchTokenStandIn, idx: usize) -> (res: usize)
    requires idx < match_token.contents@.len() <= 0xFFFF,
    ensures res > 0, // @C09
{
//@ stmt tc MatchBlock::new let precedence #1 MatchBlock::new#precedence
    precedence
}
/*</fn:MatchBlock::new#precedence>*/
// .. and an earlier rung gets a strictly higher group than a later one (the same statement, rendered twice)
/*<fn:MatchBlock::new#precedence_pair>*/
fn rung_precedence_pair(match_token: &MatchTokenStandIn, i: usize, j: usize) -> (res: (usize, usize))
    requires i < j < match_token.contents@.len() <= 0xFFFF,
    ensures res.0 > res.1, // @C09
{
    let a = { let idx = i;
//@ stmt tc MatchBlock::new let precedence #1 MatchBlock::new#precedence_pair
        precedence };
    let b = { let idx = j;
//@ stmt tc MatchBlock::new let precedence #1 MatchBlock::new#precedence_pair
        precedence };
    (a, b)
}
/*</fn:MatchBlock::new#precedence_pair>*/

// MatchBlock::new: `_` in a rung - terminals added later from the grammar get that rung's precedence.  The other
// integers in scope at the statement (`idx`, the rung count) are parameters too, so that a version of the statement
// that reads the wrong one still type-checks and fails the postcondition instead of leaving the unit undecided.
/*<fn:MatchBlock::new#catch_all>*/
fn set_catch_all(match_block: &mut MatchBlockStandIn, match_token: &MatchTokenStandIn, idx: usize, precedence: usize)
    ensures
        final(match_block).catch_all == Some(Precedence(precedence)), // @C09
        final(match_block).match_entries == old(match_block).match_entries,
{
//@ stmt tc MatchBlock::new call Precedence #1 MatchBlock::new#catch_all
}
/*</fn:MatchBlock::new#catch_all>*/

// MatchBlock::new: no match block is `match { _ }` with the lowest group
/*<fn:MatchBlock::new#no_match_block>*/
fn set_catch_all_default(match_block: &mut MatchBlockStandIn)
    ensures
        final(match_block).catch_all == Some(Precedence(0)), // @C09
        final(match_block).match_entries == old(match_block).match_entries,
{
//@ stmt tc MatchBlock::new call Precedence #2 MatchBlock::new#no_match_block
}
/*</fn:MatchBlock::new#no_match_block>*/

impl MatchBlockStandIn {
    // MatchBlock::add_match_entry: the entry recorded for a `match` item.  Context: the group precedence is a small
    // multiple of the number of rungs (bounded below), so the arithmetic cannot overflow.
    /*<fn:MatchBlock::add_match_entry#push>*/
    fn push_match_entry(&mut self, match_group_precedence: usize, sym: TerminalLiteral, user_name: MatchMapping)
        requires match_group_precedence <= 0xFF_FFFF,
        ensures
            final(self).match_entries@.len() == old(self).match_entries@.len() + 1,
            final(self).match_entries@.last().precedence == entry_prec(match_group_precedence as int, sym), // @C09
            final(self).match_entries@.last().match_literal == sym, // @C09
            final(self).match_entries@.last().user_name == user_name, // @C09
            final(self).match_entries@.drop_last() == old(self).match_entries@,
            final(self).catch_all == old(self).catch_all,
    {
//@ stmt tc MatchBlock::add_match_entry call push #1 MatchBlock::add_match_entry#push
    }
    /*</fn:MatchBlock::add_match_entry#push>*/

    // MatchBlock::add_literal_from_grammar: the entry recorded for a terminal used in the grammar but not named in
    // the match block (allowed by `_`): same formula, with the catch-all rung's group.
    /*<fn:MatchBlock::add_literal_from_grammar#push>*/
    fn push_grammar_literal(&mut self, match_group_precedence: usize, sym: TerminalLiteral)
        requires match_group_precedence <= 0xFF_FFFF,
        ensures
            final(self).match_entries@.len() == old(self).match_entries@.len() + 1,
            final(self).match_entries@.last().precedence == entry_prec(match_group_precedence as int, sym), // @C09
            final(self).match_entries@.drop_last() == old(self).match_entries@,
            final(self).catch_all == old(self).catch_all,
    {
//@ stmt tc MatchBlock::add_literal_from_grammar call push #1 MatchBlock::add_literal_from_grammar#push
    }
    /*</fn:MatchBlock::add_literal_from_grammar#push>*/
}

} // verus!
fn main() {}
