// Verus unit U4: range partitioning of the lexer-ambiguity check, assembled mechanically by tools/unit.py:
// `struct Test`, `impl Test`, `impl PartialOrd/Ord for Test` (lalrpop/src/lexer/nfa/mod.rs) and `remove_overlap`,
// `add_range` (lalrpop/src/lexer/dfa/overlap.rs).
#![feature(allocator_api)]
#![allow(unused_imports, dead_code, unused_variables)]
//@ source nfa lalrpop/src/lexer/nfa/mod.rs
//@ source ov lalrpop/src/lexer/dfa/overlap.rs
use vstd::prelude::*;
use vstd::std_specs::iter::IteratorSpec;
use std::cmp;
use vstd::std_specs::cmp::OrdSpec;
use std::ops::RangeInclusive;

verus! {

pub assume_specification<T: Ord> [core::cmp::min] (a: T, b: T) -> (r: T)
    ensures <T as vstd::std_specs::cmp::OrdSpec>::obeys_cmp_spec() ==> r == (if a.cmp_spec(&b) is Greater { b } else { a });
pub assume_specification<T: Ord> [core::cmp::max] (a: T, b: T) -> (r: T)
    ensures <T as vstd::std_specs::cmp::OrdSpec>::obeys_cmp_spec() ==> r == (if a.cmp_spec(&b) is Greater { a } else { b });

pub assume_specification<Idx> [RangeInclusive::<Idx>::start] (r: &RangeInclusive<Idx>) -> (s: &Idx)
    ensures *s == r@.start;
pub assume_specification<Idx> [RangeInclusive::<Idx>::end] (r: &RangeInclusive<Idx>) -> (s: &Idx)
    ensures *s == r@.end;

/// instantiation handle for the quantifiers in the specification of `position`
pub open spec fn pos_at(j: int) -> bool { true }
pub assume_specification<'a, T, P: FnMut(&'a T) -> bool> [<std::slice::Iter<'a, T> as std::iter::Iterator>::position] (it: &mut std::slice::Iter<'a, T>, p: P) -> (r: Option<usize>) where std::slice::Iter<'a, T>: Sized,
    requires forall|x: &'a T| p.requires((x,)),
    ensures
        match r {
            Some(i) => i < (*old(it)).remaining().len() && p.ensures((&(*old(it)).remaining()[i as int],), true)
                && forall|j: int| #![trigger pos_at(j)] 0 <= j < i ==> p.ensures((&(*old(it)).remaining()[j],), false),
            None => forall|j: int| #![trigger pos_at(j)] 0 <= j < (*old(it)).remaining().len() ==> p.ensures((&(*old(it)).remaining()[j],), false),
        };

//@ item nfa struct Test pub_fields
//@ item nfa impl Test
//@ item nfa impl PartialOrd@Test
//@ item nfa impl Ord@Test

/// `#[derive(Clone)]` on `Test`, replaced by a trusted impl carrying the derive's contract (R7c)
impl Clone for Test {
    #[verifier::external_body]
    fn clone(&self) -> (r: Test) ensures r == *self { Test { range: self.range.clone() } }
}
pub assume_specification<T: Clone> [<T as std::borrow::ToOwned>::to_owned] (t: &T) -> (r: T)
    ensures call_ensures(T::clone, (t,), r);

impl vstd::std_specs::cmp::PartialEqSpecImpl for Test {
    open spec fn obeys_eq_spec() -> bool { true }
    open spec fn eq_spec(&self, other: &Test) -> bool { self.range@ == other.range@ }
}
pub assume_specification [<Test as PartialEq>::eq] (a: &Test, b: &Test) -> (r: bool)
    ensures r == (a.range@ == b.range@);

// ------------------------------ ghost vocabulary ------------------------------
/// representation invariant of `Test`: the range was never iterated (constructors only build fresh ranges)
pub open spec fn ti(t: Test) -> bool { !t.range@.exhausted }
/// `ti` plus the bound every caller respects: labels are code points (<= 0x10FFFF) or bytes
pub open spec fn wf(t: Test) -> bool {
    ti(t) && (t.range@.start <= t.range@.end ==> t.range@.end < u32::MAX)
}
pub open spec fn all_wf(v: Seq<Test>) -> bool { forall|i: int| 0 <= i < v.len() ==> wf(#[trigger] v[i]) }
pub open spec fn ne(t: Test) -> bool { t.lo() <= t.hi() }
/// a and b have no common element
pub open spec fn sep(a: Test, b: Test) -> bool { !ne(a) || !ne(b) || a.hi() < b.lo() || b.hi() < a.lo() }
/// a lies inside b
pub open spec fn sub(a: Test, b: Test) -> bool { b.lo() <= a.lo() && a.hi() <= b.hi() }
pub open spec fn disjoint(v: Seq<Test>) -> bool {
    forall|i: int, j: int| 0 <= i < j < v.len() ==> sep(#[trigger] v[i], #[trigger] v[j])
}
pub open spec fn covered(v: Seq<Test>, x: u32) -> bool { exists|i: int| 0 <= i < v.len() && (#[trigger] v[i]).has(x) }
/// "each input range is covered precisely by some set of ranges in the output": every point of `t`
/// lies in a member of `v` that is wholly inside `t`
pub open spec fn pp(v: Seq<Test>, t: Test) -> bool {
    forall|x: u32| #[trigger] t.has(x) ==> exists|j: int| 0 <= j < v.len() && (#[trigger] v[j]).has(x) && sub(v[j], t)
}
pub proof fn lemma_pp_trans(a: Seq<Test>, b: Seq<Test>, t: Test)
    requires pp(a, t), forall|k: int| 0 <= k < a.len() ==> pp(b, #[trigger] a[k]),
    ensures pp(b, t),
{
    assert forall|x: u32| #[trigger] t.has(x) implies exists|j: int| 0 <= j < b.len() && (#[trigger] b[j]).has(x) && sub(b[j], t) by {
        let k = choose|k: int| 0 <= k < a.len() && (#[trigger] a[k]).has(x) && sub(a[k], t);
        assert(pp(b, a[k]));
        assert(a[k].has(x));
        let j = choose|j: int| 0 <= j < b.len() && (#[trigger] b[j]).has(x) && sub(b[j], a[k]);
        assert(b[j].has(x) && sub(b[j], t));
    }
}
/// a point of `t` that lies in the piece `p` (a sub-range of `t`) is precisely covered once `p` is
pub proof fn lemma_pp_piece(v: Seq<Test>, p: Test, t: Test, x: u32)
    requires pp(v, p), sub(p, t), p.has(x),
    ensures exists|j: int| 0 <= j < v.len() && (#[trigger] v[j]).has(x) && sub(v[j], t),
{
    let j = choose|j: int| 0 <= j < v.len() && (#[trigger] v[j]).has(x) && sub(v[j], p);
    assert(v[j].has(x) && sub(v[j], t));
}
/// every member of `v` is empty, or lies wholly inside or wholly outside `t`
pub open spec fn refines(v: Seq<Test>, t: Test) -> bool {
    forall|j: int| 0 <= j < v.len() ==> (!ne(#[trigger] v[j]) || sep(v[j], t) || sub(v[j], t))
}

// ------------------------------ assumed contracts of slice::sort and Vec::retain ------------------------------
/// instantiation handle for the index-map quantifiers
pub open spec fn at(i: int) -> bool { true }
/// p is a permutation of 0..n with inverse q
pub open spec fn is_perm(p: Seq<int>, q: Seq<int>, n: int) -> bool {
    p.len() == n && q.len() == n
    && (forall|i: int| #![trigger at(i)] 0 <= i < n ==> 0 <= p[i] < n && q[p[i]] == i)
    && (forall|k: int| #![trigger at(k)] 0 <= k < n ==> 0 <= q[k] < n && p[q[k]] == k)
}
/// `sort` leaves a permutation of its input (its order is irrelevant to the partition property)
pub assume_specification<T: Ord> [<[T]>::sort] (s: &mut [T])
    ensures final(s)@.len() == old(s)@.len(),
        exists|p: Seq<int>, q: Seq<int>| is_perm(p, q, old(s)@.len() as int) && forall|i: int| 0 <= i < old(s)@.len() ==> #[trigger] final(s)@[i] == old(s)@[p[i]];
/// m is a strictly increasing selection of n_new indices out of 0..n_old
pub open spec fn is_selection(m: Seq<int>, n_old: int, n_new: int) -> bool {
    m.len() == n_new
    && (forall|j: int| #![trigger at(j)] 0 <= j < n_new ==> 0 <= m[j] < n_old)
    && (forall|j: int, k: int| #![trigger at(j), at(k)] 0 <= j < k < n_new ==> m[j] < m[k])
}
pub open spec fn selected(m: Seq<int>, i: int) -> bool { exists|j: int| 0 <= j < m.len() && #[trigger] m[j] == i }
/// `retain` keeps, in order, exactly the entries on which the closure returned true
pub assume_specification<T, A: std::alloc::Allocator, F: FnMut(&T) -> bool> [Vec::<T, A>::retain] (v: &mut Vec<T, A>, f: F)
    requires forall|x: &T| f.requires((x,)),
    ensures exists|m: Seq<int>| #![trigger is_selection(m, old(v)@.len() as int, final(v)@.len() as int)] is_selection(m, old(v)@.len() as int, final(v)@.len() as int)
        && (forall|j: int| #![trigger at(j)] 0 <= j < final(v)@.len() ==> final(v)@[j] == old(v)@[m[j]] && f.ensures((&old(v)@[m[j]],), true))
        && (forall|i: int| #![trigger at(i)] 0 <= i < old(v)@.len() ==> selected(m, i) || f.ensures((&old(v)@[i],), false));

pub open spec fn all_ne(v: Seq<Test>) -> bool { forall|i: int| 0 <= i < v.len() ==> ne(#[trigger] v[i]) }
/// x lies in one of the first n input ranges
pub open spec fn in_some(rs: Seq<Test>, n: int, x: u32) -> bool { exists|k: int| 0 <= k < n && (#[trigger] rs[k]).has(x) }
pub open spec fn nonempty_selection(o: Seq<Test>, r: Seq<Test>, m: Seq<int>) -> bool {
    is_selection(m, o.len() as int, r.len() as int)
    && (forall|j: int| #![trigger at(j)] at(j) && 0 <= j < r.len() ==> r[j] == o[m[j]] && (wf(o[m[j]]) ==> ne(o[m[j]])))
    && (forall|i: int| #![trigger at(i)] at(i) && 0 <= i < o.len() ==> selected(m, i) || (wf(o[i]) ==> !ne(o[i])))
}
/// dropping the empty ranges keeps everything the partition promises
pub proof fn lemma_retain_nonempty(o: Seq<Test>, r: Seq<Test>)
    requires all_wf(o), disjoint(o),
        exists|m: Seq<int>| #![trigger is_selection(m, o.len() as int, r.len() as int)] nonempty_selection(o, r, m),
    ensures all_wf(r), disjoint(r), all_ne(r),
        forall|x: u32| #[trigger] covered(r, x) <==> covered(o, x),
        forall|t: Test| pp(o, t) ==> #[trigger] pp(r, t),
{
    let m = choose|m: Seq<int>| nonempty_selection(o, r, m);
    assert forall|j: int| 0 <= j < r.len() implies wf(#[trigger] r[j]) && ne(r[j]) by { assert(at(j)); }
    assert forall|j: int, k: int| 0 <= j < k < r.len() implies sep(#[trigger] r[j], #[trigger] r[k]) by { assert(at(j) && at(k)); }
    assert forall|x: u32| #[trigger] covered(r, x) <==> covered(o, x) by {
        if covered(r, x) { let j = choose|j: int| 0 <= j < r.len() && (#[trigger] r[j]).has(x); assert(at(j)); assert(o[m[j]].has(x)); }
        if covered(o, x) {
            let i = choose|i: int| 0 <= i < o.len() && (#[trigger] o[i]).has(x);
            assert(at(i)); assert(ne(o[i]));
            let j = choose|j: int| 0 <= j < m.len() && #[trigger] m[j] == i;
            assert(at(j)); assert(r[j].has(x));
        }
    }
    assert forall|t: Test| pp(o, t) implies #[trigger] pp(r, t) by {
        assert forall|x: u32| #[trigger] t.has(x) implies exists|j: int| 0 <= j < r.len() && (#[trigger] r[j]).has(x) && sub(r[j], t) by {
            let i = choose|i: int| 0 <= i < o.len() && (#[trigger] o[i]).has(x) && sub(o[i], t);
            assert(at(i)); assert(ne(o[i]));
            let j = choose|j: int| 0 <= j < m.len() && #[trigger] m[j] == i;
            assert(at(j)); assert(r[j].has(x) && sub(r[j], t));
        }
    }
}
/// reordering keeps everything the partition promises
pub proof fn lemma_permuted(o: Seq<Test>, s: Seq<Test>)
    requires all_wf(o), disjoint(o), all_ne(o), s.len() == o.len(),
        exists|p: Seq<int>, q: Seq<int>| is_perm(p, q, o.len() as int) && forall|i: int| 0 <= i < o.len() ==> #[trigger] s[i] == o[p[i]],
    ensures all_wf(s), disjoint(s), all_ne(s),
        forall|x: u32| #[trigger] covered(s, x) <==> covered(o, x),
        forall|t: Test| pp(o, t) ==> #[trigger] pp(s, t),
{
    let n = o.len() as int;
    let (p, q) = choose|p: Seq<int>, q: Seq<int>| is_perm(p, q, n) && forall|i: int| 0 <= i < n ==> #[trigger] s[i] == o[p[i]];
    assert forall|k: int| 0 <= k < n implies #[trigger] o[k] == s[q[k]] by { assert(at(k)); assert(s[q[k]] == o[p[q[k]]]); }
    assert forall|j: int| 0 <= j < n implies wf(#[trigger] s[j]) && ne(s[j]) by { assert(at(j)); assert(s[j] == o[p[j]]); }
    assert forall|j: int, k: int| 0 <= j < k < n implies sep(#[trigger] s[j], #[trigger] s[k]) by {
        assert(at(j) && at(k)); assert(s[j] == o[p[j]] && s[k] == o[p[k]]);
        assert(p[j] != p[k]);
        if p[j] < p[k] { assert(sep(o[p[j]], o[p[k]])); } else { assert(sep(o[p[k]], o[p[j]])); }
    }
    assert forall|x: u32| #[trigger] covered(s, x) <==> covered(o, x) by {
        if covered(s, x) { let j = choose|j: int| 0 <= j < n && (#[trigger] s[j]).has(x); assert(at(j)); assert(o[p[j]].has(x)); }
        if covered(o, x) { let i = choose|i: int| 0 <= i < n && (#[trigger] o[i]).has(x); assert(at(i)); assert(s[q[i]].has(x)); }
    }
    assert forall|t: Test| pp(o, t) implies #[trigger] pp(s, t) by {
        assert forall|x: u32| #[trigger] t.has(x) implies exists|j: int| 0 <= j < s.len() && (#[trigger] s[j]).has(x) && sub(s[j], t) by {
            let i = choose|i: int| 0 <= i < o.len() && (#[trigger] o[i]).has(x) && sub(o[i], t);
            assert(at(i)); assert(s[q[i]].has(x) && sub(s[q[i]], t));
        }
    }
}

//@ item ov fn remove_overlap
//@ item ov fn add_range

} // verus!
fn main() {}
