// Verus unit U4: range-partition kernel of the lexer-ambiguity check, assembled mechanically by tools/unit.py:
// `struct Test` + `impl Test` (lalrpop/src/lexer/nfa/mod.rs) and `add_range` (lalrpop/src/lexer/dfa/overlap.rs).
#![allow(unused_imports, dead_code, unused_variables)]
//@ source nfa lalrpop/src/lexer/nfa/mod.rs
//@ source ov lalrpop/src/lexer/dfa/overlap.rs
use vstd::prelude::*;
use vstd::std_specs::iter::IteratorSpec;
use std::cmp;
use vstd::std_specs::cmp::OrdSpec;
use std::ops::RangeInclusive;

verus! {

pub assume_specification<T: Ord> [core::cmp::min] (a: T, b: T) -> (r: T)
    ensures <T as vstd::std_specs::cmp::OrdSpec>::obeys_cmp_spec() ==> r == (if a.cmp_spec(&b) is Greater { b } else { a });
pub assume_specification<T: Ord> [core::cmp::max] (a: T, b: T) -> (r: T)
    ensures <T as vstd::std_specs::cmp::OrdSpec>::obeys_cmp_spec() ==> r == (if a.cmp_spec(&b) is Greater { a } else { b });

pub assume_specification<Idx> [RangeInclusive::<Idx>::start] (r: &RangeInclusive<Idx>) -> (s: &Idx)
    ensures *s == r@.start;
pub assume_specification<Idx> [RangeInclusive::<Idx>::end] (r: &RangeInclusive<Idx>) -> (s: &Idx)
    ensures *s == r@.end;

/// instantiation handle for the quantifiers in the specification of `position`
pub open spec fn pos_at(j: int) -> bool { true }
pub assume_specification<'a, T, P: FnMut(&'a T) -> bool> [<std::slice::Iter<'a, T> as std::iter::Iterator>::position] (it: &mut std::slice::Iter<'a, T>, p: P) -> (r: Option<usize>) where std::slice::Iter<'a, T>: Sized,
    requires forall|x: &'a T| p.requires((x,)),
    ensures
        match r {
            Some(i) => i < (*old(it)).remaining().len() && p.ensures((&(*old(it)).remaining()[i as int],), true)
                && forall|j: int| #![trigger pos_at(j)] 0 <= j < i ==> p.ensures((&(*old(it)).remaining()[j],), false),
            None => forall|j: int| #![trigger pos_at(j)] 0 <= j < (*old(it)).remaining().len() ==> p.ensures((&(*old(it)).remaining()[j],), false),
        };

//@ item nfa struct Test pub_fields
//@ item nfa impl Test

impl vstd::std_specs::cmp::PartialEqSpecImpl for Test {
    open spec fn obeys_eq_spec() -> bool { true }
    open spec fn eq_spec(&self, other: &Test) -> bool { self.range@ == other.range@ }
}
pub assume_specification [<Test as PartialEq>::eq] (a: &Test, b: &Test) -> (r: bool)
    ensures r == (a.range@ == b.range@);

// ------------------------------ ghost vocabulary ------------------------------
/// representation invariant of `Test`: the range was never iterated (constructors only build fresh ranges)
pub open spec fn ti(t: Test) -> bool { !t.range@.exhausted }
/// `ti` plus the bound every caller respects: labels are code points (<= 0x10FFFF) or bytes
pub open spec fn wf(t: Test) -> bool {
    ti(t) && (t.range@.start <= t.range@.end ==> t.range@.end < u32::MAX)
}
pub open spec fn all_wf(v: Seq<Test>) -> bool { forall|i: int| 0 <= i < v.len() ==> wf(#[trigger] v[i]) }
pub open spec fn ne(t: Test) -> bool { t.lo() <= t.hi() }
/// a and b have no common element
pub open spec fn sep(a: Test, b: Test) -> bool { !ne(a) || !ne(b) || a.hi() < b.lo() || b.hi() < a.lo() }
/// a lies inside b
pub open spec fn sub(a: Test, b: Test) -> bool { b.lo() <= a.lo() && a.hi() <= b.hi() }
pub open spec fn disjoint(v: Seq<Test>) -> bool {
    forall|i: int, j: int| 0 <= i < j < v.len() ==> sep(#[trigger] v[i], #[trigger] v[j])
}
pub open spec fn covered(v: Seq<Test>, x: u32) -> bool { exists|i: int| 0 <= i < v.len() && (#[trigger] v[i]).has(x) }
/// "each input range is covered precisely by some set of ranges in the output": every point of `t`
/// lies in a member of `v` that is wholly inside `t`
pub open spec fn pp(v: Seq<Test>, t: Test) -> bool {
    forall|x: u32| #[trigger] t.has(x) ==> exists|j: int| 0 <= j < v.len() && (#[trigger] v[j]).has(x) && sub(v[j], t)
}
pub proof fn lemma_pp_trans(a: Seq<Test>, b: Seq<Test>, t: Test)
    requires pp(a, t), forall|k: int| 0 <= k < a.len() ==> pp(b, #[trigger] a[k]),
    ensures pp(b, t),
{
    assert forall|x: u32| #[trigger] t.has(x) implies exists|j: int| 0 <= j < b.len() && (#[trigger] b[j]).has(x) && sub(b[j], t) by {
        let k = choose|k: int| 0 <= k < a.len() && (#[trigger] a[k]).has(x) && sub(a[k], t);
        assert(pp(b, a[k]));
        assert(a[k].has(x));
        let j = choose|j: int| 0 <= j < b.len() && (#[trigger] b[j]).has(x) && sub(b[j], a[k]);
        assert(b[j].has(x) && sub(b[j], t));
    }
}
/// a point of `t` that lies in the piece `p` (a sub-range of `t`) is precisely covered once `p` is
pub proof fn lemma_pp_piece(v: Seq<Test>, p: Test, t: Test, x: u32)
    requires pp(v, p), sub(p, t), p.has(x),
    ensures exists|j: int| 0 <= j < v.len() && (#[trigger] v[j]).has(x) && sub(v[j], t),
{
    let j = choose|j: int| 0 <= j < v.len() && (#[trigger] v[j]).has(x) && sub(v[j], p);
    assert(v[j].has(x) && sub(v[j], t));
}
/// every member of `v` is empty, or lies wholly inside or wholly outside `t`
pub open spec fn refines(v: Seq<Test>, t: Test) -> bool {
    forall|j: int| 0 <= j < v.len() ==> (!ne(#[trigger] v[j]) || sep(v[j], t) || sub(v[j], t))
}

//@ item ov fn add_range

} // verus!
fn main() {}
