// Native (rustc) replay / bounded exhaustive check of the REAL `remove_overlap` + `add_range` + `Test`,
// extracted verbatim by tools/unit.py (no rewrites).  Usage:
//   overlap_native search <alphabet> <max ranges>     exhaustive search over all sets of ranges
//   overlap_native replay a-b,c-d,...                 one input
// exit 1 + `FAILING-INPUT: ...` when the documented contract of remove_overlap is violated.
#![allow(dead_code, unused_imports)]
//@ source nfa lalrpop/src/lexer/nfa/mod.rs
//@ source ov lalrpop/src/lexer/dfa/overlap.rs
use std::cmp;
use std::collections::BTreeSet as Set;
use std::ops::RangeInclusive;
//@ item nfa struct Test
//@ item nfa impl PartialOrd@Test
//@ item nfa impl Ord@Test
//@ item nfa impl Test
//@ item ov fn remove_overlap
//@ item ov fn add_range

/// The contract stated in the module documentation of overlap.rs: non-overlapping output, same set of
/// characters covered, each input range covered precisely by some set of output ranges.
fn check(rs: &[(u32, u32)], universe: u32) -> Result<(), String> {
    let mut s = Set::new();
    for &(a, b) in rs { s.insert(Test::new(a..=b)); }
    let out = remove_overlap(&s);
    let show = |o: &Vec<Test>| o.iter().map(|t| format!("{}-{}", t.start(), t.end())).collect::<Vec<_>>().join(",");
    for i in 0..out.len() { for j in i + 1..out.len() {
        if out[i].intersects(&out[j]) { return Err(format!("output ranges overlap: [{}]", show(&out))); }
    } }
    for x in 0..=universe + 1 {
        let cin = rs.iter().any(|&(a, b)| a <= x && x <= b);
        let cout = out.iter().any(|t| t.contains_u32(x));
        if cin != cout { return Err(format!("coverage differs at {}: [{}]", x, show(&out))); }
    }
    for t in &out { for &(a, b) in rs {
        let inside = a <= t.start() && t.end() <= b;
        let outside = t.end() < a || b < t.start();
        if !(inside || outside) { return Err(format!("output range {}-{} straddles input range {}-{}: [{}]", t.start(), t.end(), a, b, show(&out))); }
    } }
    Ok(())
}

fn main() {
    let args: Vec<String> = std::env::args().collect();
    if args.len() >= 3 && args[1] == "replay" {
        let rs: Vec<(u32, u32)> = args[2].split(',').map(|p| { let mut it = p.split('-'); (it.next().unwrap().parse().unwrap(), it.next().unwrap().parse().unwrap()) }).collect();
        let uni = rs.iter().map(|r| r.1).max().unwrap_or(0);
        match check(&rs, uni) {
            Ok(()) => { println!("replay ok: contract holds for {}", args[2]); }
            Err(e) => { println!("FAILING-INPUT: remove_overlap({{{}}}) -> {}", args[2], e); std::process::exit(1); }
        }
        return;
    }
    let alpha: u32 = args.get(2).and_then(|s| s.parse().ok()).unwrap_or(6);
    let maxk: usize = args.get(3).and_then(|s| s.parse().ok()).unwrap_or(4);
    let mut all = vec![];
    for s in 0..=alpha { for e in s..=alpha { all.push((s, e)); } }
    let mut checked = 0u64;
    let mut cur: Vec<(u32, u32)> = vec![];
    fn rec(all: &[(u32, u32)], k: usize, start: usize, cur: &mut Vec<(u32, u32)>, alpha: u32, checked: &mut u64) -> Option<(Vec<(u32, u32)>, String)> {
        if !cur.is_empty() {
            *checked += 1;
            if let Err(e) = check(cur, alpha) { return Some((cur.clone(), e)); }
        }
        if cur.len() == k { return None; }
        for i in start..all.len() {
            cur.push(all[i]);
            let r = rec(all, k, i + 1, cur, alpha, checked);
            cur.pop();
            if r.is_some() { return r; }
        }
        None
    }
    match rec(&all, maxk, 0, &mut cur, alpha, &mut checked) {
        Some((rs, e)) => {
            let inp = rs.iter().map(|r| format!("{}-{}", r.0, r.1)).collect::<Vec<_>>().join(",");
            println!("checked {} sets", checked);
            println!("FAILING-INPUT: remove_overlap({{{}}}) -> {}", inp, e);
            println!("REPLAY-ARG: {}", inp);
            std::process::exit(1);
        }
        None => println!("searched {} sets of <= {} ranges over 0..={}: contract holds", checked, maxk, alpha),
    }
}
