//! Reference recogniser (Earley), written independently of lalrpop: the oracle for membership (C01) and for
//! prefix viability (C04).  Grammars are given as data in main.rs, transcribed by hand from the .lalrpop files.
#[derive(Clone, Copy, PartialEq, Eq, Debug)]
pub enum Sym { T(u8), N(usize) }
pub struct Grammar { pub prods: Vec<(usize, Vec<Sym>)>, pub start: usize }

#[derive(Clone, Copy, PartialEq, Eq)]
struct Item { prod: usize, dot: usize, origin: usize }

impl Grammar {
    fn closure(&self, sets: &mut Vec<Vec<Item>>, i: usize) {
        let mut changed = true;
        while changed {
            changed = false;
            let mut k = 0;
            while k < sets[i].len() {
                let it = sets[i][k];
                let (lhs, rhs) = (&self.prods[it.prod].0, &self.prods[it.prod].1);
                if it.dot < rhs.len() {
                    if let Sym::N(nt) = rhs[it.dot] {
                        for (p, (l, _)) in self.prods.iter().enumerate() {
                            if *l == nt {
                                let ni = Item { prod: p, dot: 0, origin: i };
                                if !sets[i].contains(&ni) { sets[i].push(ni); changed = true; }
                            }
                        }
                    }
                } else {
                    // complete
                    let orig: Vec<Item> = sets[it.origin].clone();
                    for o in orig {
                        let orhs = &self.prods[o.prod].1;
                        if o.dot < orhs.len() && orhs[o.dot] == Sym::N(*lhs) {
                            let ni = Item { prod: o.prod, dot: o.dot + 1, origin: o.origin };
                            if !sets[i].contains(&ni) { sets[i].push(ni); changed = true; }
                        }
                    }
                }
                k += 1;
            }
        }
    }
    /// (accepted, first index k such that input[..=k] is not a prefix of any sentence)
    pub fn run(&self, input: &[u8]) -> (bool, Option<usize>) {
        let mut sets: Vec<Vec<Item>> = vec![vec![]];
        for (p, (l, _)) in self.prods.iter().enumerate() {
            if *l == self.start { sets[0].push(Item { prod: p, dot: 0, origin: 0 }); }
        }
        self.closure(&mut sets, 0);
        for (i, &t) in input.iter().enumerate() {
            let mut next = vec![];
            for it in &sets[i] {
                let rhs = &self.prods[it.prod].1;
                if it.dot < rhs.len() && rhs[it.dot] == Sym::T(t) {
                    let ni = Item { prod: it.prod, dot: it.dot + 1, origin: it.origin };
                    if !next.contains(&ni) { next.push(ni); }
                }
            }
            if next.is_empty() { return (false, Some(i)); }
            sets.push(next);
            self.closure(&mut sets, i + 1);
        }
        let n = input.len();
        let acc = sets[n].iter().any(|it| it.origin == 0 && self.prods[it.prod].0 == self.start && it.dot == self.prods[it.prod].1.len());
        (acc, None)
    }
}
