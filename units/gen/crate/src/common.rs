//! Shared types of the U5 harness.
#[derive(Clone, Copy, Debug, PartialEq, Eq)]
pub enum Tok { N(i32), Plus, Star, LP, RP, Semi, A, B, C, D, E, P }
#[derive(Clone, Copy, Debug, PartialEq, Eq)]
pub struct MyErr(pub i32);

/// flat description of the tree built by the recovery grammar: leaves by start location, error nodes by span
#[derive(Clone, Debug, PartialEq, Eq)]
pub enum Node { Tok(usize), Err { l: usize, r: usize, dropped: Vec<(usize, usize)> } }

/// token i occupies [10 i + 1, 10 i + 6]
pub fn span(i: usize) -> (usize, usize) { (10 * i + 1, 10 * i + 6) }

/// counts how many items have been pulled
pub struct Counting<I> { pub inner: I, pub pulled: std::rc::Rc<std::cell::Cell<usize>> }
impl<I: Iterator> Iterator for Counting<I> {
    type Item = I::Item;
    fn next(&mut self) -> Option<I::Item> {
        let r = self.inner.next();
        if r.is_some() { self.pulled.set(self.pulled.get() + 1); }
        r
    }
}
