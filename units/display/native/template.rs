// Native bounded unit for C28's Display: the real `enum ParseError`, `fmt_expected` and `impl Display for ParseError`
// (lalrpop-util/src/lib.rs), extracted verbatim by tools/unit.py and compiled with rustc, run over an enumerated domain
// against a reference rendering written from the property ("Unrecognized token `t` found at s:e" ..., and the
// expected tokens as "Expected one of a, b or c").  The entry pool contains the strings a textual shortcut would
// trip over: comma-space, " or ", the empty string, a non-ASCII name.
#![allow(unused_imports, dead_code)]
//@ source lib lalrpop-util/src/lib.rs
extern crate alloc;
use alloc::{string::String, vec::Vec};
use core::fmt;

//@ item lib enum ParseError
//@ item lib fn fmt_expected
//@ item lib impl Display@ParseError

const POOL: &[&str] = &["a", "b", "\"+\"", "\", \"", "x, y", " or ", "", "\u{e9}"];

fn reference(v: &ParseError<usize, &str, &str>) -> String {
    fn exp(expected: &[String]) -> String {
        let mut s = String::new();
        if !expected.is_empty() {
            s.push('\n');
            for (i, e) in expected.iter().enumerate() {
                if i == 0 { s.push_str("Expected one of"); } else if i + 1 < expected.len() { s.push(','); } else { s.push_str(" or"); }
                s.push(' ');
                s.push_str(e);
            }
        }
        s
    }
    match v {
        ParseError::InvalidToken { location } => format!("Invalid token at {}", location),
        ParseError::UnrecognizedEof { location, expected } => format!("Unrecognized EOF found at {}{}", location, exp(expected)),
        ParseError::UnrecognizedToken { token: (s, t, e), expected } => format!("Unrecognized token `{}` found at {}:{}{}", t, s, e, exp(expected)),
        ParseError::ExtraToken { token: (s, t, e) } => format!("Extra token {} found at {}:{}", t, s, e),
        ParseError::User { error } => format!("{}", error),
    }
}

fn values(idx: &[usize]) -> Vec<ParseError<usize, &'static str, &'static str>> {
    let expected: Vec<String> = idx.iter().map(|i| POOL[*i].to_string()).collect();
    vec![
        ParseError::UnrecognizedEof { location: 7, expected: expected.clone() },
        ParseError::UnrecognizedToken { token: (3, "t, u", 9), expected },
    ]
}

fn check(idx: &[usize]) -> Result<(), String> {
    for v in values(idx) {
        let got = format!("{}", v);
        let want = reference(&v);
        if got != want { return Err(format!("Display gives {:?}, the documented form is {:?}", got, want)); }
    }
    Ok(())
}

fn fixed() -> Result<(), String> {
    let vs: Vec<ParseError<usize, &str, &str>> = vec![
        ParseError::InvalidToken { location: 5 },
        ParseError::ExtraToken { token: (2, "x", 11) },
        ParseError::User { error: "boom, or not" },
    ];
    for v in vs {
        let got = format!("{}", v);
        let want = reference(&v);
        if got != want { return Err(format!("Display gives {:?}, the documented form is {:?}", got, want)); }
    }
    Ok(())
}

fn main() {
    let args: Vec<String> = std::env::args().collect();
    if args.len() >= 3 && args[1] == "replay" {
        let idx: Vec<usize> = if args[2] == "-" { vec![] } else { args[2].split(',').map(|p| p.parse().unwrap()).collect() };
        match check(&idx).and_then(|_| fixed()) {
            Ok(()) => println!("replay ok: Display has the documented form for expected = {:?}", idx.iter().map(|i| POOL[*i]).collect::<Vec<_>>()),
            Err(e) => { println!("FAILING-INPUT: expected = {:?} -> {}", idx.iter().map(|i| POOL[*i]).collect::<Vec<_>>(), e); std::process::exit(1); }
        }
        return;
    }
    let maxk: usize = args.get(2).and_then(|s| s.parse().ok()).unwrap_or(3);
    let mut checked = 0u64;
    if let Err(e) = fixed() { println!("checked 1 sets"); println!("FAILING-INPUT: {}", e); println!("REPLAY-ARG: -"); std::process::exit(1); }
    let mut cur: Vec<usize> = vec![];
    fn rec(maxk: usize, cur: &mut Vec<usize>, checked: &mut u64) -> Option<(Vec<usize>, String)> {
        *checked += 1;
        if let Err(e) = check(cur) { return Some((cur.clone(), e)); }
        if cur.len() == maxk { return None; }
        for i in 0..POOL.len() {
            cur.push(i);
            let r = rec(maxk, cur, checked);
            cur.pop();
            if r.is_some() { return r; }
        }
        None
    }
    match rec(maxk, &mut cur, &mut checked) {
        Some((idx, e)) => {
            println!("checked {} sets", checked);
            println!("FAILING-INPUT: expected = {:?} -> {}", idx.iter().map(|i| POOL[*i]).collect::<Vec<_>>(), e);
            println!("REPLAY-ARG: {}", if idx.is_empty() { "-".to_string() } else { idx.iter().map(|i| i.to_string()).collect::<Vec<_>>().join(",") });
            std::process::exit(1);
        }
        None => println!("searched {} sets of expected lists of <= {} entries over a pool of {}: Display has the documented form", checked, maxk, POOL.len()),
    }
}
