// Verus unit U3v: the built-in lexer's matcher (lalrpop-util/src/lexer.rs), assembled mechanically by tools/unit.py.
// The regex-automata types are replaced by STUBS carrying the ASSUMED contract of its hybrid (lazy) DFA; everything
// between `---- extracted` markers is the real source text (modulo the logged rewrites R8, R9, R12, R13).
#![allow(unused_imports, dead_code, unused_variables, unused_mut, unused_assignments)]
//@ source lib lalrpop-util/src/lib.rs
//@ source lx lalrpop-util/src/lexer.rs
use vstd::prelude::*;
use vstd::string::*;
use vstd::utf8::*;
use core::marker::PhantomData;
use core::ops::Index;
use core::slice::SliceIndex;

verus! {

/// std: `impl<I: SliceIndex<str>> Index<I> for str { fn index(&self, i: I) -> &I::Output { i.index(self) } }` - vstd specifies the
/// `SliceIndex<str>` impls of the range types but gives `str`'s `Index` no postcondition; this restates the delegation.
pub assume_specification<I: SliceIndex<str>> [<str as Index<I>>::index] (s: &str, i: I) -> (out: &<I as SliceIndex<str>>::Output)
    ensures call_ensures(<I as SliceIndex<str>>::index, (i, s), out);

//@ item lib enum ParseError strip_attrs

// ------------------------------------------------------------------------------------------------------------
// ASSUMED contract of regex-automata 0.4 `hybrid::dfa` (the same one kani/lexer/shim implements), as ghost model:
//   pat_matches(d, p, s)  pattern p matches exactly the byte string s (anchored, whole string)
//   valid(c, id)          id was issued by cache c since c was last cleared (using any other id is a protocol error)
//   seen(c, id)           the bytes fed since the start state
//   reported(c, id)       the text whose match status `id.is_match()` reports (one byte late; all of it after EOI)
// ------------------------------------------------------------------------------------------------------------
#[verifier::external_body] pub struct DFA { p: u8 }
#[verifier::external_body] pub struct Cache { p: u8 }
#[derive(Clone, Copy)] pub struct LazyStateID { pub id: u32 }
#[derive(Debug)] pub struct CacheError;
#[derive(Debug)] pub struct StartError;
pub struct PatternID { pub p: usize }
pub enum Anchored { No, Yes }
pub struct Input<'h> { pub hay: &'h str, pub anchored: Anchored }

pub uninterp spec fn dfa_npats(d: &DFA) -> nat;
/// the automaton was built the way the contract below assumes: `MatchKind::All` (every matching pattern is reported, which
/// is what "highest index among the matching patterns" needs) and no give-up threshold (`minimum_cache_clear_count` unset:
/// `next_state` never returns `Err(CacheError)`)
pub uninterp spec fn dfa_std(d: &DFA) -> bool;

// ---- stubs of the builder chain of `MatcherBuilder::new` (by-value builders: the call chain type-checks unchanged) ----
pub enum MatchKind { All, LeftmostFirst }
pub struct DfaConfig { pub match_all: bool, pub gives_up: bool }
pub struct SyntaxConfig { pub p: u8 }
pub struct NfaConfig { pub p: u8 }
pub struct Builder { pub cfg: DfaConfig }
#[derive(Debug)] pub struct BuildError;
impl DfaConfig {
    pub fn match_kind(self, kind: MatchKind) -> (c: DfaConfig) ensures c.match_all == (kind is All), c.gives_up == self.gives_up { DfaConfig { match_all: matches!(kind, MatchKind::All), gives_up: self.gives_up } }
    pub fn minimum_cache_clear_count(self, min: Option<usize>) -> (c: DfaConfig) ensures c.gives_up == (min is Some), c.match_all == self.match_all { DfaConfig { match_all: self.match_all, gives_up: min.is_some() } }
    pub fn minimum_bytes_per_state(self, min: Option<usize>) -> (c: DfaConfig) ensures c == self { self }
}
impl SyntaxConfig {
    pub fn new() -> SyntaxConfig { SyntaxConfig { p: 0 } }
    pub fn unicode(self, yes: bool) -> SyntaxConfig { self }
    pub fn utf8(self, yes: bool) -> SyntaxConfig { self }
}
impl NfaConfig {
    pub fn new() -> NfaConfig { NfaConfig { p: 0 } }
    pub fn utf8(self, yes: bool) -> NfaConfig { self }
    pub fn shrink(self, yes: bool) -> NfaConfig { self }
}
impl Builder {
    pub fn configure(self, config: DfaConfig) -> (b: Builder) ensures b.cfg == config { Builder { cfg: config } }
    pub fn syntax(self, config: SyntaxConfig) -> (b: Builder) ensures b.cfg == self.cfg { self }
    pub fn thompson(self, config: NfaConfig) -> (b: Builder) ensures b.cfg == self.cfg { self }
    /// one pattern per regex, in order; the automaton is `dfa_std` exactly when the configuration asked for it
    #[verifier::external_body]
    pub fn build_many<P: AsRef<str>>(&self, patterns: &[P]) -> (r: Result<DFA, BuildError>)
        ensures r matches Ok(d) ==> (dfa_npats(&d) == patterns@.len() && (dfa_std(&d) <==> (self.cfg.match_all && !self.cfg.gives_up)))
    { unimplemented!() }
}
pub uninterp spec fn pat_matches(d: &DFA, p: nat, s: Seq<u8>) -> bool;
pub open spec fn matches_any(d: &DFA, s: Seq<u8>) -> bool { exists|p: nat| p < dfa_npats(d) && #[trigger] pat_matches(d, p, s) }
/// the highest index among the patterns matching s (meaningful when some pattern matches)
pub uninterp spec fn max_pat(d: &DFA, s: Seq<u8>) -> nat;
pub uninterp spec fn valid(c: &Cache, id: LazyStateID) -> bool;
pub uninterp spec fn seen(c: &Cache, id: LazyStateID) -> Seq<u8>;
pub uninterp spec fn reported(c: &Cache, id: LazyStateID) -> Seq<u8>;
pub uninterp spec fn sid_match(id: LazyStateID) -> bool;
pub uninterp spec fn sid_dead(id: LazyStateID) -> bool;

/// TRUSTED: `max_pat` is the maximum matching pattern index
#[verifier::external_body]
pub proof fn axiom_max_pat(d: &DFA, s: Seq<u8>)
    requires matches_any(d, s),
    ensures max_pat(d, s) < dfa_npats(d), pat_matches(d, max_pat(d, s), s),
        forall|p: nat| p < dfa_npats(d) && #[trigger] pat_matches(d, p, s) ==> p <= max_pat(d, s),
{
}

impl<'h> Input<'h> {
    pub fn new(h: &'h str) -> (r: Input<'h>) ensures r.anchored is No { Input { hay: h, anchored: Anchored::No } }
    pub fn anchored(self, a: Anchored) -> (r: Input<'h>) ensures r.anchored == a { Input { hay: self.hay, anchored: a } }
}
impl PatternID {
    pub fn as_usize(&self) -> usize { self.p }
}
impl LazyStateID {
    #[verifier::external_body]
    pub fn is_match(&self) -> (b: bool) ensures b == sid_match(*self) { unimplemented!() }
    #[verifier::external_body]
    pub fn is_dead(&self) -> (b: bool) ensures b == sid_dead(*self) { unimplemented!() }
}
impl DFA {
    /// regex-automata's defaults: leftmost-first match kind, no give-up threshold
    pub fn builder() -> (b: Builder) ensures !b.cfg.match_all, !b.cfg.gives_up { Builder { cfg: DfaConfig { match_all: false, gives_up: false } } }
    pub fn config() -> (c: DfaConfig) ensures !c.match_all, !c.gives_up { DfaConfig { match_all: false, gives_up: false } }

    #[verifier::external_body]
    pub fn create_cache(&self) -> (c: Cache) { unimplemented!() }

    /// start of an anchored search; with the default configuration the lazy DFA never gives up (no error)
    #[verifier::external_body]
    pub fn start_state_forward(&self, cache: &mut Cache, input: &Input<'_>) -> (r: Result<LazyStateID, StartError>)
        // the contract speaks about matches that START at the current offset: an anchored search
        requires dfa_std(self), input.anchored is Yes,
        ensures r is Ok, valid(final(cache), r->Ok_0), seen(final(cache), r->Ok_0) == Seq::<u8>::empty(), !sid_match(r->Ok_0),
    { unimplemented!() }

    /// one byte; may clear the cache: afterwards only the returned id is known to be valid
    #[verifier::external_body]
    pub fn next_state(&self, cache: &mut Cache, current: LazyStateID, input: u8) -> (r: Result<LazyStateID, CacheError>)
        requires valid(old(cache), current), dfa_std(self),
        ensures r is Ok, valid(final(cache), r->Ok_0),
            seen(final(cache), r->Ok_0) == seen(old(cache), current).push(input),
            reported(final(cache), r->Ok_0) == seen(old(cache), current),
            sid_match(r->Ok_0) <==> matches_any(self, seen(old(cache), current)),
            sid_dead(r->Ok_0) ==> (!sid_match(r->Ok_0)
                && forall|ext: Seq<u8>| !matches_any(self, #[trigger] (seen(old(cache), current) + ext))),
    { unimplemented!() }

    /// end of input: reports a match of everything fed so far
    #[verifier::external_body]
    pub fn next_eoi_state(&self, cache: &mut Cache, current: LazyStateID) -> (r: Result<LazyStateID, CacheError>)
        requires valid(old(cache), current), dfa_std(self),
        ensures r is Ok, valid(final(cache), r->Ok_0),
            reported(final(cache), r->Ok_0) == seen(old(cache), current),
            sid_match(r->Ok_0) <==> matches_any(self, seen(old(cache), current)),
    { unimplemented!() }

    #[verifier::external_body]
    pub fn match_len(&self, cache: &Cache, id: LazyStateID) -> usize { unimplemented!() }
    #[verifier::external_body]
    pub fn match_pattern(&self, cache: &Cache, id: LazyStateID, match_index: usize) -> PatternID { unimplemented!() }
}

// ------------------------------ ghost vocabulary of the lexer (written from C09 / C08) ------------------------------
/// L is the length of the longest prefix of t matched by any pattern
pub open spec fn is_longest(d: &DFA, t: Seq<u8>, len: int) -> bool {
    0 <= len <= t.len() && matches_any(d, t.subrange(0, len))
    && forall|l: int| len < l <= t.len() ==> !matches_any(d, #[trigger] t.subrange(0, l))
}
pub open spec fn no_match(d: &DFA, t: Seq<u8>) -> bool {
    forall|l: int| 0 <= l <= t.len() ==> !matches_any(d, #[trigger] t.subrange(0, l))
}

/// [a, b) is one skipped token: the longest match at a, ending on a character boundary, whose highest pattern is a skip rule
pub open spec fn seg_skipped(d: &DFA, skip: Seq<bool>, t: Seq<u8>, a: int, b: int) -> bool {
    0 <= a < b <= t.len()
    && is_longest(d, t.subrange(a, t.len() as int), b - a)
    && is_char_boundary(t.subrange(a, t.len() as int), b - a)
    && max_pat(d, t.subrange(a, t.len() as int).subrange(0, b - a)) < skip.len()
    && skip[max_pat(d, t.subrange(a, t.len() as int).subrange(0, b - a)) as int]
}
/// cuts = 0 < c1 < c2 < .. : the text before cuts.last() is a sequence of skipped tokens
pub open spec fn skips_ok(d: &DFA, skip: Seq<bool>, t: Seq<u8>, cuts: Seq<int>) -> bool {
    cuts.len() >= 1 && cuts[0] == 0 && 0 <= cuts.last() <= t.len()
    && forall|k: int| 0 <= k < cuts.len() - 1 ==> seg_skipped(d, skip, t, #[trigger] cuts[k], cuts[k + 1])
}
pub proof fn lemma_skips_push(d: &DFA, skip: Seq<bool>, t: Seq<u8>, cuts: Seq<int>, b: int)
    requires skips_ok(d, skip, t, cuts), seg_skipped(d, skip, t, cuts.last(), b),
    ensures skips_ok(d, skip, t, cuts.push(b)), cuts.push(b).last() == b,
{
    let c2 = cuts.push(b);
    assert forall|k: int| 0 <= k < c2.len() - 1 implies seg_skipped(d, skip, t, #[trigger] c2[k], c2[k + 1]) by {
        if k < cuts.len() - 1 { assert(c2[k] == cuts[k] && c2[k + 1] == cuts[k + 1]); }
    }
}
pub proof fn lemma_sub_sub(t: Seq<u8>, a: int, l: int)
    requires 0 <= a, 0 <= l, a + l <= t.len(),
    ensures t.subrange(a, t.len() as int).subrange(0, l) == t.subrange(a, a + l),
        t.subrange(a, t.len() as int).subrange(l, t.len() - a) == t.subrange(a + l, t.len() as int),
{
    assert(t.subrange(a, t.len() as int).subrange(0, l) =~= t.subrange(a, a + l));
    assert(t.subrange(a, t.len() as int).subrange(l, t.len() - a) =~= t.subrange(a + l, t.len() as int));
}

/// the scan's record of the best match so far: (pattern index, length)
pub open spec fn m_none(m: Option<(usize, usize)>) -> bool { m is None }
pub open spec fn m_idx(m: Option<(usize, usize)>) -> usize { m->Some_0.0 }
pub open spec fn m_len(m: Option<(usize, usize)>) -> usize { m->Some_0.1 }

/// the bytes of a `&str` are valid UTF-8 (vstd: spec_bytes == encode_utf8(chars)), hence 0 and len are char boundaries
pub proof fn lemma_str_bounds(text: &str)
    ensures valid_utf8(text.spec_bytes()), is_char_boundary(text.spec_bytes(), 0),
        is_char_boundary(text.spec_bytes(), text.spec_bytes().len() as int),
{
    broadcast use vstd::string::group_string_axioms;
    encode_utf8_valid_utf8(text@);
    is_char_boundary_start_end_of_seq(text.spec_bytes());
}
/// prefix algebra used by the scan
pub proof fn lemma_prefix_push(t: Seq<u8>, i: int)
    requires 0 <= i < t.len(),
    ensures t.subrange(0, i).push(t[i]) == t.subrange(0, i + 1),
{
    assert(t.subrange(0, i).push(t[i]) =~= t.subrange(0, i + 1));
}
pub proof fn lemma_prefix_ext(t: Seq<u8>, i: int, l: int)
    requires 0 <= i <= l <= t.len(),
    ensures t.subrange(0, i) + t.subrange(i, l) == t.subrange(0, l),
{
    assert(t.subrange(0, i) + t.subrange(i, l) =~= t.subrange(0, l));
}

// ------------------------------ real code under contract ------------------------------
//@ item lx struct Token strip_attrs

// R15: the statement of `MatcherBuilder::new` that configures and builds the automaton, extracted verbatim; parameters =
// its free variables (`regex_vec`, and `enable_unicode` which `new` takes from cfg!(feature = "unicode")).  C08 / C09: the
// automaton `Matcher::next` steps through is one for which the assumed contract of the lazy DFA holds (all matching patterns
// reported, never gives up), and it has one pattern per regex.
/*<fn:MatcherBuilder::new#dfa>*/
fn build_dfa_for<S: AsRef<str>>(regex_vec: Vec<S>, enable_unicode: bool) -> (res: Result<DFA, BuildError>)
    ensures res matches Ok(d) ==> (dfa_std(&d) && dfa_npats(&d) == regex_vec@.len()),   // @C08 @C09
{
//@ stmt lx MatcherBuilder::new let dfa #1 MatcherBuilder::new#dfa
    Ok(dfa)
}
/*</fn:MatcherBuilder::new#dfa>*/

//@ item lx struct MatcherBuilder pub_fields
//@ item lx impl MatcherBuilder only=matcher
//@ item lx struct Matcher pub_fields
//@ item lx impl Matcher
//@ item lx impl Iterator@Matcher

} // verus!
fn main() {}
