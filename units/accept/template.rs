// Verus unit U6: the equal-precedence accept check of the lexer-ambiguity test.  The `let kind = ..;` statement of
// DfaBuilder::build (lalrpop/src/lexer/dfa/mod.rs) is extracted verbatim on every run (R15) into the wrapper
// `classify_accepts`, whose parameters are the statement's free variables; the types are extracted too.
#![allow(unused_imports, dead_code, unused_variables)]
//@ source nfa lalrpop/src/lexer/nfa/mod.rs
//@ source dfa lalrpop/src/lexer/dfa/mod.rs
use vstd::prelude::*;

verus! {

//@ item nfa enum NfaConstructionError strip_attrs
//@ item dfa struct Precedence
//@ item dfa enum DfaConstructionError strip_attrs
//@ item dfa enum Kind strip_attrs
//@ item dfa struct NfaIndex pub_fields

impl vstd::std_specs::cmp::PartialEqSpecImpl for Precedence {
    open spec fn obeys_eq_spec() -> bool { true }
    open spec fn eq_spec(&self, other: &Precedence) -> bool { self.0 == other.0 }
}
pub assume_specification [<Precedence as PartialEq>::eq] (a: &Precedence, b: &Precedence) -> (r: bool)
    ensures r == (a.0 == b.0);

// ------------------------------ assumed contract of slice::sort ------------------------------
/// the order `sort` sorts by (`Ord::cmp` is not `Greater`)
pub uninterp spec fn sort_le<T>(a: T, b: T) -> bool;
/// instantiation handle for the permutation quantifiers
pub open spec fn at(i: int) -> bool { true }
/// p is a permutation of 0..n with inverse q
pub open spec fn is_perm(p: Seq<int>, q: Seq<int>, n: int) -> bool {
    p.len() == n && q.len() == n
    && (forall|i: int| #![trigger at(i)] 0 <= i < n ==> 0 <= p[i] < n && q[p[i]] == i)
    && (forall|k: int| #![trigger at(k)] 0 <= k < n ==> 0 <= q[k] < n && p[q[k]] == k)
}
pub assume_specification<T: Ord> [<[T]>::sort] (s: &mut [T])
    ensures final(s)@.len() == old(s)@.len(),
        exists|p: Seq<int>, q: Seq<int>| is_perm(p, q, old(s)@.len() as int) && forall|i: int| 0 <= i < old(s)@.len() ==> #[trigger] final(s)@[i] == old(s)@[p[i]],
        forall|i: int, j: int| 0 <= i <= j < final(s)@.len() ==> sort_le(#[trigger] final(s)@[i], #[trigger] final(s)@[j]);
/// derived `Ord` on `(Precedence, NfaIndex)` is lexicographic: the precedence is the major key
#[verifier::external_body]
pub proof fn axiom_tuple_order(a: (Precedence, NfaIndex), b: (Precedence, NfaIndex))
    requires sort_le(a, b), ensures prec(a) <= prec(b) {}

// ------------------------------ ghost vocabulary ------------------------------
pub open spec fn prec(e: (Precedence, NfaIndex)) -> int { e.0.0 as int }
/// entry i has the highest precedence of the list
pub open spec fn is_top(s: Seq<(Precedence, NfaIndex)>, i: int) -> bool {
    0 <= i < s.len() && forall|k: int| 0 <= k < s.len() ==> prec(#[trigger] s[k]) <= prec(s[i])
}
/// entries i and j are two different accepting terminals that share the highest precedence
pub open spec fn tie_at(s: Seq<(Precedence, NfaIndex)>, i: int, j: int) -> bool {
    0 <= j < s.len() && i != j && is_top(s, i) && prec(s[i]) == prec(s[j])
}
pub open spec fn tie(s: Seq<(Precedence, NfaIndex)>) -> bool { exists|i: int, j: int| tie_at(s, i, j) }
pub open spec fn top_pair(o: Seq<(Precedence, NfaIndex)>, s: Seq<(Precedence, NfaIndex)>, a: int, b: int) -> bool {
    0 <= a < o.len() && 0 <= b < o.len() && a != b && o[a] == s[s.len() - 1] && o[b] == s[s.len() - 2] && is_top(o, a)
    && (prec(s[s.len() - 1]) == prec(s[s.len() - 2]) ==> tie_at(o, a, b))
}
/// what sorting tells about the unsorted list: the last sorted entry is a top entry of it, and the list has a tie
/// exactly when the last two sorted entries have equal precedence
pub proof fn lemma_sorted_top(o: Seq<(Precedence, NfaIndex)>, s: Seq<(Precedence, NfaIndex)>)
    requires o.len() >= 2, s.len() == o.len(),
        exists|p: Seq<int>, q: Seq<int>| is_perm(p, q, o.len() as int) && forall|i: int| 0 <= i < o.len() ==> #[trigger] s[i] == o[p[i]],
        forall|i: int, j: int| 0 <= i <= j < s.len() ==> sort_le(#[trigger] s[i], #[trigger] s[j]),
    ensures
        exists|a: int, b: int| top_pair(o, s, a, b),
        prec(s[s.len() - 1]) != prec(s[s.len() - 2]) ==> !tie(o),
{
    let n = o.len() as int;
    let (p, q) = choose|p: Seq<int>, q: Seq<int>| is_perm(p, q, n) && forall|i: int| 0 <= i < n ==> #[trigger] s[i] == o[p[i]];
    assert forall|k: int| 0 <= k < n implies prec(#[trigger] s[k]) <= prec(s[n - 1]) by { axiom_tuple_order(s[k], s[n - 1]); }
    assert forall|k: int| 0 <= k < n implies #[trigger] o[k] == s[q[k]] by { assert(at(k)); assert(s[q[k]] == o[p[q[k]]]); }
    let a = p[n - 1];
    let b = p[n - 2];
    assert(at(n - 1) && at(n - 2));
    assert(q[a] == n - 1 && q[b] == n - 2);
    assert(s[n - 1] == o[a] && s[n - 2] == o[b]);
    assert(is_top(o, a)) by {
        assert forall|k: int| 0 <= k < n implies prec(#[trigger] o[k]) <= prec(o[a]) by {
            assert(at(k)); assert(o[k] == s[q[k]]); assert(prec(s[q[k]]) <= prec(s[n - 1]));
        }
    }
    assert(top_pair(o, s, a, b));
    if prec(s[n - 1]) != prec(s[n - 2]) {
        axiom_tuple_order(s[n - 2], s[n - 1]);
        assert forall|i: int, j: int| !tie_at(o, i, j) by {
            if tie_at(o, i, j) {
                let x = q[i]; let y = q[j];
                assert(at(i) && at(j));
                assert(o[i] == s[x] && o[j] == s[y]);
                assert(p[x] == i && p[y] == j);
                assert(prec(o[a]) <= prec(o[i]));
                if x <= n - 2 { axiom_tuple_order(s[x], s[n - 2]); } else { axiom_tuple_order(s[y], s[n - 2]); }
            }
        }
    }
}

/// stands for `item_set` (only `.items.is_empty()` is read by the statement)
pub struct ItemSetStandIn { pub items: Vec<u8> }

// The wrapper: parameters = free variables of the statement (`all_rejects`, `item_set`, `all_accepts`), result = the
// value the statement binds (`Ok(kind)`) or the error it returns from `build`.
/*<fn:DfaBuilder::build#kind>*/
fn classify_accepts(all_rejects: bool, item_set: &ItemSetStandIn, all_accepts_0: Vec<(Precedence, NfaIndex)>) -> (res: Result<Kind, DfaConstructionError>)
    ensures
        // no accepting terminal: never an ambiguity
        (all_rejects || item_set.items@.len() == 0) ==> res == Ok::<Kind, DfaConstructionError>(Kind::Reject), // @C11
        !(all_rejects || item_set.items@.len() == 0) && all_accepts_0@.len() == 0 ==> res == Ok::<Kind, DfaConstructionError>(Kind::Neither), // @C11
        // "ambiguity detected" exactly when two different accepting terminals share the highest precedence
        !(all_rejects || item_set.items@.len() == 0) && all_accepts_0@.len() > 0 ==> (res is Err <==> tie(all_accepts_0@)), // @C11
        // the two terminals it names are such a pair
        res matches Err(e) ==> e matches DfaConstructionError::Ambiguity { match0, match1 } && exists|i: int, j: int| tie_at(all_accepts_0@, i, j) && all_accepts_0@[i].1 == match0 && all_accepts_0@[j].1 == match1, // @C11
        // otherwise the state accepts, and accepts a terminal of highest precedence
        !(all_rejects || item_set.items@.len() == 0) && all_accepts_0@.len() > 0 && res is Ok ==> res matches Ok(Kind::Accepts(_)), // @C11
        res matches Ok(Kind::Accepts(n)) ==> exists|i: int| #![trigger is_top(all_accepts_0@, i)] is_top(all_accepts_0@, i) && all_accepts_0@[i].1 == n, // @C11
{
    let mut all_accepts = all_accepts_0;
    let ghost o = all_accepts_0@;
    proof {
        assert forall|i: int, j: int| o.len() == 1 implies !tie_at(o, i, j) by {}
        if o.len() == 1 { assert(is_top(o, 0)); }
    }
//@ stmt dfa DfaBuilder::build let kind #1 DfaBuilder::build#kind
    Ok(kind)
}
/*</fn:DfaBuilder::build#kind>*/

} // verus!
fn main() {}
