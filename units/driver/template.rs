// Verus unit U1: the LR driver of lalrpop-util (state_machine.rs), assembled mechanically by tools/unit.py
// from /repo's working tree.  Everything between `---- extracted` markers is the real source text
// (modulo the logged rewrites R1..R7); everything else is ghost vocabulary, contracts and lemmas.
#![allow(unused_imports, dead_code, unused_variables, non_snake_case, unused_mut, unused_assignments)]
//@ source lib lalrpop-util/src/lib.rs
//@ source sm lalrpop-util/src/state_machine.rs
use vstd::prelude::*;

verus! {

pub assume_specification<T: Clone> [<[T]>::to_vec] (s: &[T]) -> (r: Vec<T>)
    ensures r@ == s@;

// ---------------------------------------------------------------------------------------------
// crate root: the two public error types of lalrpop-util/src/lib.rs (declarations only, R7)
// ---------------------------------------------------------------------------------------------
//@ item lib enum ParseError strip_attrs
//@ item lib struct ErrorRecovery strip_attrs

pub mod state_machine {
use vstd::prelude::*;
use core::fmt::Debug;
use vstd::std_specs::iter::IteratorSpec;
use crate::ParseError as PErr;

// ------------------------------ ghost vocabulary (table contract) ------------------------------
pub enum ActKind<S, R> { Shift(S), Reduce(R), Error }
pub enum SimSpec<N> { Reduce { pop: nat, nt: N }, Accept }

#[verifier::reject_recursive_types(S)]
#[verifier::reject_recursive_types(T)]
#[verifier::reject_recursive_types(R)]
#[verifier::reject_recursive_types(N)]
#[verifier::reject_recursive_types(A)]
pub ghost struct Tables<S, T, R, N, A> {
    pub action: spec_fn(S, T) -> A,
    pub eof_action: spec_fn(S) -> A,
    pub error_action: spec_fn(S) -> A,
    pub goto: spec_fn(S, N) -> S,
    pub sim: spec_fn(R) -> SimSpec<N>,
    pub valid: spec_fn(Seq<S>) -> bool,
    pub start: S,
    pub recov: bool,
    pub fallible: bool,
}

/// the payloads of the first c items of a token stream prefix (all `Ok`)
pub open spec fn oks<A, E>(r: Seq<Result<A, E>>, c: int) -> Seq<A> {
    Seq::new(c as nat, |j: int| r[j]->Ok_0)
}
/// every token an error recovery has looked at so far, in input order: the offending lookahead (if any)
/// followed by the c tokens pulled since
pub open spec fn seen<A, E>(la0: Option<A>, r: Seq<Result<A, E>>, c: int) -> Seq<A> {
    (match la0 { Some(t) => seq![t], None => Seq::<A>::empty() }) + oks(r, c)
}

/// the first n items of a token stream prefix are all `Ok`
pub open spec fn all_ok<A, E>(r: Seq<Result<A, E>>, n: int) -> bool {
    forall|j: int| 0 <= j < n ==> (#[trigger] r[j]) is Ok
}
pub proof fn lemma_all_ok_skip<A, E>()
    ensures forall|s: Seq<Result<A, E>>, a: int, c: int| #![trigger all_ok(s.skip(a), c)]
        (0 <= a && 0 <= c && a + c <= s.len() && all_ok(s, a) && all_ok(s.skip(a), c)) ==> all_ok(s, a + c),
{
    assert forall|s: Seq<Result<A, E>>, a: int, c: int| #![trigger all_ok(s.skip(a), c)]
        (0 <= a && 0 <= c && a + c <= s.len() && all_ok(s, a) && all_ok(s.skip(a), c)) implies all_ok(s, a + c) by {
        assert forall|j: int| 0 <= j < a + c implies (#[trigger] s[j]) is Ok by {
            if j >= a { assert(s.skip(a)[j - a] is Ok); }
        }
    }
}

pub proof fn lemma_skip_skip<A>()
    ensures forall|s: Seq<A>, a: int, b: int| #![trigger s.skip(a).skip(b)] 0 <= a && 0 <= b && a + b <= s.len() ==> s.skip(a).skip(b) == s.skip(a + b),
{
    assert forall|s: Seq<A>, a: int, b: int| #![trigger s.skip(a).skip(b)] 0 <= a && 0 <= b && a + b <= s.len() implies s.skip(a).skip(b) == s.skip(a + b) by {
        assert(s.skip(a).skip(b) =~= s.skip(a + b));
    }
}

pub proof fn lemma_seq_sub_last<S>()
    ensures forall|st: Seq<S>, k: int| #![trigger st.subrange(0, k)] 0 < k <= st.len() ==> st.subrange(0, k).last() == st[k - 1] && st.subrange(0, k).len() == k,
{
}
pub open spec fn sp_action<S, T, R, N, A>(tb: Tables<S, T, R, N, A>, s: S, t: T) -> A { (tb.action)(s, t) }
pub open spec fn sp_eof<S, T, R, N, A>(tb: Tables<S, T, R, N, A>, s: S) -> A { (tb.eof_action)(s) }
pub open spec fn sp_err<S, T, R, N, A>(tb: Tables<S, T, R, N, A>, s: S) -> A { (tb.error_action)(s) }
pub open spec fn sp_goto<S, T, R, N, A>(tb: Tables<S, T, R, N, A>, s: S, n: N) -> S { (tb.goto)(s, n) }
pub open spec fn sp_sim<S, T, R, N, A>(tb: Tables<S, T, R, N, A>, r: R) -> SimSpec<N> { (tb.sim)(r) }
pub open spec fn sp_valid<S, T, R, N, A>(tb: Tables<S, T, R, N, A>, st: Seq<S>) -> bool { (tb.valid)(st) }
pub open spec fn enabled<S, T, R, N, A: ParserAction<S, R>>(tb: Tables<S, T, R, N, A>, st: Seq<S>, r: R) -> bool {
    st.len() > 0 && (
        (exists|t: T| (#[trigger] sp_action(tb, st.last(), t)).kind() == ActKind::<S, R>::Reduce(r))
        || (sp_eof(tb, st.last())).kind() == ActKind::<S, R>::Reduce(r)
        || (sp_err(tb, st.last())).kind() == ActKind::<S, R>::Reduce(r))
}
pub open spec fn after_reduce<S, T, R, N, A>(tb: Tables<S, T, R, N, A>, st: Seq<S>, pop: nat, nt: N) -> Seq<S> {
    st.subrange(0, st.len() - pop).push(sp_goto(tb, st[st.len() - pop - 1], nt))
}

// ------------------------------ real code under contract ------------------------------
//@ item sm trait ParserDefinition
//@ item sm trait ParserAction
//@ item sm enum SimulatedReduce
//@ item sm type Location strip_attrs
//@ item sm type Token strip_attrs
//@ item sm type Error strip_attrs
//@ item sm type Success strip_attrs
//@ item sm type Symbol strip_attrs
//@ item sm type ParseError
//@ item sm type ParseResult
//@ item sm type TokenTriple
//@ item sm type SymbolTriple
//@ item sm type ErrorRecovery
//@ item sm struct Parser
//@ item sm enum NextToken
//@ item sm impl Parser
//@ expand sm integral_indices

} // mod state_machine
} // verus!
fn main() {}
