// Verus unit U1: the LR driver of lalrpop-util (state_machine.rs), assembled mechanically by tools/unit.py
// from /repo's working tree.  Everything between `---- extracted` markers is the real source text
// (modulo the logged rewrites R1..R7); everything else is ghost vocabulary, contracts and lemmas.
#![allow(unused_imports, dead_code, unused_variables, non_snake_case, unused_mut, unused_assignments)]
//@ source lib lalrpop-util/src/lib.rs
//@ source sm lalrpop-util/src/state_machine.rs
use vstd::prelude::*;

verus! {

// std combinators a rewrite of the driver is likely to reach for: specified so that such a rewrite is *verified* against
// the contracts (and fails them if it changes behaviour) instead of leaving the unit undecided
pub assume_specification<T, E, F> [Result::<T, E>::or] (r: Result<T, E>, res: Result<T, F>) -> (out: Result<T, F>)
    ensures out == (match r { Ok(v) => Ok::<T, F>(v), Err(_) => res });
pub assume_specification<T> [Option::<T>::or] (o: Option<T>, optb: Option<T>) -> (out: Option<T>)
    ensures out == (match o { Some(v) => Some(v), None => optb });
pub assume_specification<T: Clone> [<[T]>::to_vec] (s: &[T]) -> (r: Vec<T>)
    ensures r@ == s@;

// ---------------------------------------------------------------------------------------------
// crate root: the two public error types of lalrpop-util/src/lib.rs (declarations only, R7)
// ---------------------------------------------------------------------------------------------
//@ item lib enum ParseError strip_attrs
//@ item lib struct ErrorRecovery strip_attrs

pub mod state_machine {
use vstd::prelude::*;
use core::fmt::Debug;
use vstd::std_specs::iter::IteratorSpec;
use crate::ParseError as PErr;

// ------------------------------ ghost vocabulary (table contract) ------------------------------
pub enum ActKind<S, R> { Shift(S), Reduce(R), Error }
pub enum SimSpec<N> { Reduce { pop: nat, nt: N }, Accept }

#[verifier::reject_recursive_types(S)]
#[verifier::reject_recursive_types(T)]
#[verifier::reject_recursive_types(R)]
#[verifier::reject_recursive_types(N)]
#[verifier::reject_recursive_types(A)]
pub ghost struct Tables<S, T, R, N, A> {
    pub action: spec_fn(S, T) -> A,
    pub eof_action: spec_fn(S) -> A,
    pub error_action: spec_fn(S) -> A,
    pub goto: spec_fn(S, N) -> S,
    pub sim: spec_fn(R) -> SimSpec<N>,
    pub valid: spec_fn(Seq<S>) -> bool,
    pub start: S,
    pub recov: bool,
    pub fallible: bool,
}

/// the payloads of the first c items of a token stream prefix (all `Ok`)
pub open spec fn oks<A, E>(r: Seq<Result<A, E>>, c: int) -> Seq<A> {
    Seq::new(c as nat, |j: int| r[j]->Ok_0)
}
/// every token an error recovery has looked at so far, in input order: the offending lookahead (if any)
/// followed by the c tokens pulled since
pub open spec fn seen<A, E>(la0: Option<A>, r: Seq<Result<A, E>>, c: int) -> Seq<A> {
    (match la0 { Some(t) => seq![t], None => Seq::<A>::empty() }) + oks(r, c)
}

/// TRUSTED (std): `Clone` for 3-tuples clones componentwise, so it returns an equal value when the components' do.
/// (Verus has no specification for the built-in tuple instance.)
#[verifier::external_body]
pub proof fn axiom_tuple3_clone<A: Clone, B: Clone>()
    requires
        forall|a: A, b: A| #[trigger] call_ensures(<A as Clone>::clone, (&a,), b) ==> a == b,
        forall|a: B, b: B| #[trigger] call_ensures(<B as Clone>::clone, (&a,), b) ==> a == b,
    ensures forall|x: (A, B, A), y: (A, B, A)| #[trigger] vstd::pervasive::cloned::<(A, B, A)>(x, y) ==> x == y,
{
}

/// the first n items of a token stream prefix are all `Ok`
pub open spec fn all_ok<A, E>(r: Seq<Result<A, E>>, n: int) -> bool {
    forall|j: int| 0 <= j < n ==> (#[trigger] r[j]) is Ok
}
/// the location of an offending lookahead: the start of the token, nothing at end of input
pub open spec fn la_loc<L, T>(la: Option<(L, T, L)>) -> Option<L> { match la { Some(t) => Some(t.0), None => None } }
/// the reduce log `n` extends `o` by reductions that were all told the lookahead's start
pub open spec fn rlog_ok<L, T>(o: Seq<Option<L>>, n: Seq<Option<L>>, la: Option<(L, T, L)>) -> bool {
    o.len() <= n.len() && n.subrange(0, o.len() as int) =~= o
    && forall|k: int| o.len() <= k < n.len() ==> n[k] == la_loc(la)
}
pub proof fn lemma_rlog_push<L, T>(o: Seq<Option<L>>, la: Option<(L, T, L)>)
    ensures forall|n: Seq<Option<L>>| rlog_ok(o, n, la) ==> rlog_ok(o, #[trigger] n.push(la_loc(la)), la)
{
    assert forall|n: Seq<Option<L>>| rlog_ok(o, n, la) implies rlog_ok(o, #[trigger] n.push(la_loc(la)), la) by {
        assert(n.push(la_loc(la)).subrange(0, o.len() as int) =~= n.subrange(0, o.len() as int));
    }
}
pub proof fn lemma_all_ok_skip<A, E>()
    ensures forall|s: Seq<Result<A, E>>, a: int, c: int| #![trigger all_ok(s.skip(a), c)]
        (0 <= a && 0 <= c && a + c <= s.len() && all_ok(s, a) && all_ok(s.skip(a), c)) ==> all_ok(s, a + c),
{
    assert forall|s: Seq<Result<A, E>>, a: int, c: int| #![trigger all_ok(s.skip(a), c)]
        (0 <= a && 0 <= c && a + c <= s.len() && all_ok(s, a) && all_ok(s.skip(a), c)) implies all_ok(s, a + c) by {
        assert forall|j: int| 0 <= j < a + c implies (#[trigger] s[j]) is Ok by {
            if j >= a { assert(s.skip(a)[j - a] is Ok); }
        }
    }
}

pub proof fn lemma_skip_skip<A>()
    ensures forall|s: Seq<A>, a: int, b: int| #![trigger s.skip(a).skip(b)] 0 <= a && 0 <= b && a + b <= s.len() ==> s.skip(a).skip(b) == s.skip(a + b),
{
    assert forall|s: Seq<A>, a: int, b: int| #![trigger s.skip(a).skip(b)] 0 <= a && 0 <= b && a + b <= s.len() implies s.skip(a).skip(b) == s.skip(a + b) by {
        assert(s.skip(a).skip(b) =~= s.skip(a + b));
    }
}

pub proof fn lemma_seq_sub_last<S>()
    ensures forall|st: Seq<S>, k: int| #![trigger st.subrange(0, k)] 0 < k <= st.len() ==> st.subrange(0, k).last() == st[k - 1] && st.subrange(0, k).len() == k,
{
}
pub open spec fn sp_action<S, T, R, N, A>(tb: Tables<S, T, R, N, A>, s: S, t: T) -> A { (tb.action)(s, t) }
pub open spec fn sp_eof<S, T, R, N, A>(tb: Tables<S, T, R, N, A>, s: S) -> A { (tb.eof_action)(s) }
pub open spec fn sp_err<S, T, R, N, A>(tb: Tables<S, T, R, N, A>, s: S) -> A { (tb.error_action)(s) }
pub open spec fn sp_goto<S, T, R, N, A>(tb: Tables<S, T, R, N, A>, s: S, n: N) -> S { (tb.goto)(s, n) }
pub open spec fn sp_sim<S, T, R, N, A>(tb: Tables<S, T, R, N, A>, r: R) -> SimSpec<N> { (tb.sim)(r) }
pub open spec fn sp_valid<S, T, R, N, A>(tb: Tables<S, T, R, N, A>, st: Seq<S>) -> bool { (tb.valid)(st) }
pub open spec fn enabled<S, T, R, N, A: ParserAction<S, R>>(tb: Tables<S, T, R, N, A>, st: Seq<S>, r: R) -> bool {
    st.len() > 0 && (
        (exists|t: T| (#[trigger] sp_action(tb, st.last(), t)).kind() == ActKind::<S, R>::Reduce(r))
        || (sp_eof(tb, st.last())).kind() == ActKind::<S, R>::Reduce(r)
        || (sp_err(tb, st.last())).kind() == ActKind::<S, R>::Reduce(r))
}
pub open spec fn after_reduce<S, T, R, N, A>(tb: Tables<S, T, R, N, A>, st: Seq<S>, pop: nat, nt: N) -> Seq<S> {
    st.subrange(0, st.len() - pop).push(sp_goto(tb, st[st.len() - pop - 1], nt))
}


// ------------------------------ T3: the spec LR machine (oracle written from C01 / C04) ------------------------------
/// what the parser sees of one stream item
pub enum Tk<T> { Err, Unknown, Idx(T) }
/// how a parse ends.  positions are indices into the token stream
pub enum Out { Accepted, UnrecTok(int), UnrecEof, StreamErr(int), Early }
pub enum Step<S> { Next(Seq<S>, int), Stop(Out) }

/// one move of a deterministic LR machine on `tb`: shift on Shift, reduce on Reduce, report the token on Error,
/// accept only on the end-of-input action (C01); the error is reported at the first token whose action is Error (C04)
pub open spec fn lr_step<S, T, R, N, A: ParserAction<S, R>>(tb: Tables<S, T, R, N, A>, toks: Seq<Tk<T>>, st: Seq<S>, pos: int) -> Step<S> {
    if 0 <= pos < toks.len() {
        match toks[pos] {
            Tk::Err => Step::Stop(Out::StreamErr(pos)),
            Tk::Unknown => Step::Stop(Out::UnrecTok(pos)),
            Tk::Idx(t) => match sp_action(tb, st.last(), t).kind() {
                ActKind::Shift(s) => Step::Next(st.push(s), pos + 1),
                ActKind::Reduce(r) => match sp_sim(tb, r) {
                    SimSpec::Reduce { pop, nt } => Step::Next(after_reduce(tb, st, pop, nt), pos),
                    SimSpec::Accept => Step::Stop(Out::Early),
                },
                ActKind::Error => Step::Stop(Out::UnrecTok(pos)),
            },
        }
    } else {
        match sp_eof(tb, st.last()).kind() {
            ActKind::Reduce(r) => match sp_sim(tb, r) {
                SimSpec::Reduce { pop, nt } => Step::Next(after_reduce(tb, st, pop, nt), pos),
                SimSpec::Accept => Step::Stop(Out::Accepted),
            },
            _ => Step::Stop(Out::UnrecEof),
        }
    }
}
/// position `pos` is past the last token (also the instantiation handle of the end-of-input contracts)
pub open spec fn at_eof<T>(toks: Seq<Tk<T>>, pos: int) -> bool { pos >= toks.len() }
/// n moves from (st0, p0)
pub open spec fn lr_iter<S, T, R, N, A: ParserAction<S, R>>(tb: Tables<S, T, R, N, A>, toks: Seq<Tk<T>>, st0: Seq<S>, p0: int, n: nat) -> Step<S>
    decreases n
{
    if n == 0 { Step::Next(st0, p0) } else {
        match lr_iter(tb, toks, st0, p0, (n - 1) as nat) {
            Step::Next(st, pos) => lr_step(tb, toks, st, pos),
            Step::Stop(o) => Step::Stop(o),
        }
    }
}
/// the stack a parse starts with: just the start state
pub open spec fn is_start_stack<S, T, R, N, A>(tb: Tables<S, T, R, N, A>, st: Seq<S>) -> bool { st.len() == 1 && st[0] == tb.start }
/// C01 / C04 / C17 at the API, for tables without recovery and fallible actions: `res` is the outcome of the spec LR
/// machine started in `st0` on the whole token stream `r0` (classified as `toks`); `loc0` is the location reported at
/// end of input when no token was read
pub open spec fn api_outcome<S, T, R, N, A: ParserAction<S, R>, L, K, E, V>(tb: Tables<S, T, R, N, A>, toks: Seq<Tk<T>>, st0: Seq<S>,
        r0: Seq<Result<(L, K, L), PErr<L, K, E>>>, loc0: L, res: Result<V, PErr<L, K, E>>) -> bool {
    match res {
        Ok(_) => lr_stops(tb, toks, st0, 0, Out::Accepted) && all_ok(r0, r0.len() as int),
        Err(e) => {
            ||| exists|p: int| 0 <= p < r0.len() && #[trigger] lr_stops(tb, toks, st0, 0, Out::StreamErr(p)) && r0[p] == Err::<(L, K, L), PErr<L, K, E>>(e)
            ||| (match e {
                    PErr::UnrecognizedToken { token, expected } =>
                        exists|p: int| 0 <= p < r0.len() && #[trigger] lr_stops(tb, toks, st0, 0, Out::UnrecTok(p)) && r0[p] == Ok::<(L, K, L), PErr<L, K, E>>(token),
                    PErr::UnrecognizedEof { location, expected } => lr_stops(tb, toks, st0, 0, Out::UnrecEof) && all_ok(r0, r0.len() as int)
                        && location == (if r0.len() == 0 { loc0 } else { r0[r0.len() - 1]->Ok_0.2 }),
                    _ => false,
                })
        },
    }
}
/// the input `accepts` simulates: the single lookahead token, or nothing at end of input
pub open spec fn one_tok<T>(o: Option<T>) -> Seq<Tk<T>> {
    match o { Some(i) => seq![Tk::Idx(i)], None => Seq::<Tk<T>>::empty() }
}
/// what `accepts` must answer when the machine, run on the single lookahead (or on end of input), gets to `step`:
/// yes once the lookahead has been shifted or the input accepted, no when the machine reports an error first
pub open spec fn accepts_outcome<S>(step: Step<S>) -> Option<bool> {
    match step {
        Step::Next(_, pos) => if pos >= 1 { Some(true) } else { None },
        Step::Stop(Out::Accepted) => Some(true),
        Step::Stop(Out::Early) => Some(true),
        Step::Stop(Out::UnrecTok(_)) => Some(false),
        Step::Stop(Out::UnrecEof) => Some(false),
        Step::Stop(Out::StreamErr(_)) => None,
    }
}
/// the machine started in (st0, p0) stops with outcome o
pub open spec fn lr_stops<S, T, R, N, A: ParserAction<S, R>>(tb: Tables<S, T, R, N, A>, toks: Seq<Tk<T>>, st0: Seq<S>, p0: int, o: Out) -> bool {
    exists|n: nat| #[trigger] lr_iter(tb, toks, st0, p0, n) == Step::<S>::Stop(o)
}

// ------------------------------ real code under contract ------------------------------
//@ item sm trait ParserDefinition
//@ item sm trait ParserAction
//@ item sm enum SimulatedReduce
//@ item sm type Location strip_attrs
//@ item sm type Token strip_attrs
//@ item sm type Error strip_attrs
//@ item sm type Success strip_attrs
//@ item sm type Symbol strip_attrs
//@ item sm type ParseError
//@ item sm type ParseResult
//@ item sm type TokenTriple
//@ item sm type SymbolTriple
//@ item sm type ErrorRecovery
//@ item sm struct Parser
//@ item sm enum NextToken
//@ item sm impl Parser
//@ expand sm integral_indices


// ---------------------------------------------------------------------------------------------
// Witness instance (vacuity guard): the table contract assumed of every `D: ParserDefinition` is
// satisfiable.  `W` implements the trait - with all its contracts and proof obligations VERIFIED - for
// the grammar  S -> a  (states 0 start, 1 after `a`, 2 after S; production 0: S -> a, production 1: accept).
// ---------------------------------------------------------------------------------------------
pub struct W { pub log: Ghost<Seq<Option<usize>>> }
pub open spec fn w_valid(st: Seq<i8>) -> bool {
    st =~= seq![0i8] || st =~= seq![0i8, 1i8] || st =~= seq![0i8, 2i8]
}
pub open spec fn w_tables() -> Tables<i8, u8, i8, u8, i8> {
    Tables {
        action: |s: i8, t: u8| if s == 0 { 2i8 } else { 0i8 },          // shift to state 1 is encoded 1 + 1
        eof_action: |s: i8| if s == 1 { -1i8 } else if s == 2 { -2i8 } else { 0i8 },
        error_action: |s: i8| 0i8,
        goto: |s: i8, n: u8| 2i8,
        sim: |r: i8| if r == 0 { SimSpec::Reduce { pop: 1, nt: 0u8 } } else { SimSpec::Accept },
        valid: |st: Seq<i8>| w_valid(st),
        start: 0i8,
        recov: false,
        fallible: false,
    }
}
impl ParserDefinition for W {
    type Location = usize;
    type Error = ();
    type Token = u8;
    type TokenIndex = u8;
    type Symbol = u8;
    type Success = ();
    type StateIndex = i8;
    type Action = i8;
    type ReduceIndex = i8;
    type NonterminalIndex = u8;

    open spec fn tables(&self) -> Tables<i8, u8, i8, u8, i8> { w_tables() }
    open spec fn sp_tok_index(&self, t: u8) -> Option<u8> { Some(0u8) }
    open spec fn sp_start_loc(&self) -> usize { 0 }
    open spec fn sp_rlog(&self) -> Seq<Option<usize>> { self.log@ }
    open spec fn sp_recovery_of(&self, s: u8) -> ErrorRecovery<Self> { arbitrary() }
    open spec fn sp_tks(&self, r: Seq<Result<TokenTriple<Self>, ParseError<Self>>>) -> Seq<Tk<u8>> {
        Seq::new(r.len(), |j: int| match r[j] {
            Err(_) => Tk::<u8>::Err,
            Ok(t) => match self.sp_tok_index(t.1) { Some(i) => Tk::Idx(i), None => Tk::Unknown },
        })
    }
    proof fn tks_def(&self) {}
    proof fn loc_clone_axiom(&self) {}
    proof fn tok_clone_axiom(&self) {}
    proof fn table_axioms(&self) {
        let tb = self.tables();
        assert forall|st: Seq<i8>, k: int| (sp_valid(tb, st) && 0 < k <= st.len()) implies sp_valid(tb, #[trigger] st.subrange(0, k)) by {
            if k == 1 { assert(st.subrange(0, k) =~= seq![0i8]); } else { assert(st.subrange(0, k) =~= st); }
        }
        assert forall|st: Seq<i8>, t: u8| #![trigger sp_valid(tb, st), sp_action(tb, st.last(), t)]
            sp_valid(tb, st) implies (match sp_action(tb, st.last(), t).kind() { ActKind::Shift(s2) => sp_valid(tb, st.push(s2)), _ => true }) by {
            if st.last() == 0 { assert(st =~= seq![0i8]); assert(st.push(1i8) =~= seq![0i8, 1i8]); }
        }
        assert forall|st: Seq<i8>, r: i8| #![trigger sp_valid(tb, st), sp_sim(tb, r)]
            (sp_valid(tb, st) && enabled(tb, st, r)) implies (match sp_sim(tb, r) {
                SimSpec::Reduce { pop, nt } => pop < st.len() && sp_valid(tb, after_reduce(tb, st, pop, nt)),
                SimSpec::Accept => true }) by {
            if r == 0 {
                // only state 1 has a reduce by production 0
                assert(st.last() == 1);
                assert(st =~= seq![0i8, 1i8]);
                assert(after_reduce(tb, st, 1, 0u8) =~= seq![0i8, 2i8]);
            }
        }
    }
    fn start_location(&self) -> usize { 0 }
    fn start_state(&self) -> i8 { 0 }
    fn token_to_index(&self, token: &u8) -> Option<u8> { Some(0) }
    fn action(&self, state: i8, token_index: u8) -> i8 { if state == 0 { 2 } else { 0 } }
    fn error_action(&self, state: i8) -> i8 { 0 }
    fn eof_action(&self, state: i8) -> i8 { if state == 1 { -1 } else if state == 2 { -2 } else { 0 } }
    fn goto(&self, state: i8, nt: u8) -> i8 { 2 }
    fn token_to_symbol(&self, token_index: u8, token: u8) -> u8 { token }
    fn expected_tokens(&self, state: i8) -> Vec<String> { Vec::new() }
    fn uses_error_recovery(&self) -> bool { false }
    fn error_recovery_symbol(&self, recovery: ErrorRecovery<Self>) -> u8 { proof { assert(false); } 0 }
    fn reduce(&mut self, reduce_index: i8, start_location: Option<&usize>, states: &mut Vec<i8>, symbols: &mut Vec<SymbolTriple<Self>>) -> Option<ParseResult<Self>> {
        proof { self.table_axioms(); }
        self.log = Ghost(self.log@.push(match start_location { Some(l) => Some(*l), None => None }));
        if reduce_index == 0 {
            assert(states@.last() == 1);
            assert(states@ =~= seq![0i8, 1i8]);
            let sym = symbols.pop().unwrap();
            states.pop();
            states.push(2);
            symbols.push(sym);
            assert(states@ =~= seq![0i8, 2i8]);
            assert(after_reduce(self.tables(), seq![0i8, 1i8], 1, 0u8) =~= seq![0i8, 2i8]);
            None
        } else {
            Some(Ok(()))
        }
    }
    fn simulate_reduce(&self, action: i8) -> SimulatedReduce<Self> {
        if action == 0 { SimulatedReduce::Reduce { states_to_pop: 1, nonterminal_produced: 0 } } else { SimulatedReduce::Accept }
    }
}
// R15: the statement of `Parser::parse` that turns the result of a reduction made with a real lookahead into the parse
// result, extracted verbatim; parameters = its free variables.  C17: a failing `=>?` action's error is returned
// unchanged, whatever its variant; C04/C01: a reduction that accepts while a token is still pending is `ExtraToken`
// on exactly that token.
/*<fn:Parser::parse#reduce_result>*/
fn parse_reduce_result<D: ParserDefinition>(r: ParseResult<D>, lookahead: TokenTriple<D>) -> (res: ParseResult<D>)
    ensures
        r matches Err(e) ==> res == Err::<D::Success, ParseError<D>>(e),   // @C17
        r is Ok ==> res == Err::<D::Success, ParseError<D>>(crate::ParseError::ExtraToken { token: lookahead }),   // @C04
{
//@ stmt sm Parser::parse kw return #3 Parser::parse#reduce_result
}
/*</fn:Parser::parse#reduce_result>*/

/// the witness really is driven by the verified driver: `drive` type-checks against it and its precondition is met
fn w_drive(tokens: std::vec::IntoIter<Result<(usize, u8, usize), ParseError<W>>>) -> ParseResult<W>
    requires tokens.obeys_prophetic_iter_laws()
{
    Parser::drive(W { log: Ghost(Seq::empty()) }, tokens)
}

} // mod state_machine
} // verus!
fn main() {}
