// Verus unit U7: the separator choice of fmt_expected (lalrpop-util/src/lib.rs), the only arithmetic in ParseError's
// Display.  The `let sep = match i { .. };` statement is extracted verbatim on every run (R15) into the wrapper
// `sep_for`, whose parameters are the statement's free variables.
#![allow(unused_imports, dead_code, unused_variables)]
//@ source util lalrpop-util/src/lib.rs
use vstd::prelude::*;

verus! {

// The wrapper.  Its precondition is the context of the statement in fmt_expected: it runs inside
// `if !expected.is_empty()` for the indices `enumerate()` yields, i.e. 0 <= i < expected.len().
/*<fn:fmt_expected#sep>*/
fn sep_for(i: usize, expected: &[String]) -> (sep: &'static str)
    requires i < expected@.len(),
    ensures
        // "Expected one of a, b or c": the first entry follows the heading (also when it is the only entry) ..
        i == 0 ==> sep@ == "Expected one of"@, // @C28
        // .. inner entries follow a comma ..
        0 < i < expected@.len() - 1 ==> sep@ == ","@, // @C28
        // .. and the last of two or more entries follows " or"
        0 < i && i == expected@.len() - 1 ==> sep@ == " or"@, // @C28
{
//@ stmt util fmt_expected let sep #1 fmt_expected#sep
    sep
}
/*</fn:fmt_expected#sep>*/

} // verus!
fn main() {}
