//! F2 replay: a non-skip terminal that matches the empty string (`r"a*"` is accepted by LALRPOP) on input "b".
use lalrpop_util::lexer::MatcherBuilder;
fn main() {
    let b = MatcherBuilder::new(vec![("a*", false), (r"\s+", true)]).unwrap();
    let mut m = b.matcher::<()>("b");
    let mut empties = 0;
    for k in 0..1000 {
        match m.next() {
            Some(Ok((s, tok, e))) if s == e => { if k < 3 { println!("call {}: Ok(({}, Token({}, {:?}), {}))", k, s, tok.0, tok.1, e); } empties += 1; }
            other => { println!("call {}: {:?}", k, other); break; }
        }
    }
    if empties == 1000 { println!("F2 REPRODUCED: 1000 consecutive empty tokens at offset 0"); std::process::exit(1); }
    println!("F2 not reproduced");
}
