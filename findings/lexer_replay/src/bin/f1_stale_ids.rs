//! F1 replay against the REAL regex-automata: patterns `[ab]+`, `[ab]*a[ab]{14}`, ` +` (skip);
//! 3000 pseudo-random a/b words of 200-250 chars.  The lazy DFA needs more than its 2 MB cache,
//! clears it, and the Matcher keeps using state IDs issued before the clear.
use lalrpop_util::lexer::MatcherBuilder;
fn main() {
    let k = 14usize;
    let p1 = format!("[ab]*a[ab]{{{}}}", k);
    let b = MatcherBuilder::new(vec![(r"[ab]+".to_string(), false), (p1, false), (r" +".to_string(), true)]).unwrap();
    let mut text = String::new();
    let mut expected = Vec::new();
    let mut x: u64 = 88172645463325252;
    for _ in 0..3000u32 {
        let mut w = String::new();
        let len = 200 + (x % 50) as usize;
        for _ in 0..len { x ^= x << 13; x ^= x >> 7; x ^= x << 17; w.push(if x & 1 == 0 { 'a' } else { 'b' }); }
        let bytes = w.as_bytes();
        let idx = if bytes[len - 1 - k] == b'a' { 1 } else { 0 };
        text.push_str(&w); text.push(' ');
        expected.push((idx, w));
    }
    let m = b.matcher::<()>(&text);
    let mut n = 0usize; let mut bad = 0usize;
    // bounded: the defective lexer yields empty tokens forever
    for (i, t) in m.enumerate().take(expected.len() + 10) {
        if i >= expected.len() { bad += 1; continue; }
        match t {
            Ok((s, tok, e)) => {
                if tok.0 != expected[i].0 || tok.1 != expected[i].1 { if bad < 5 { println!("MISMATCH at {}: got ({}, len {}) span {}..{} expected ({}, len {})", i, tok.0, tok.1.len(), s, e, expected[i].0, expected[i].1.len()); } bad += 1; }
                n += 1;
            }
            Err(e) => { println!("ERR at token {}: {:?}", i, e); break; }
        }
    }
    println!("tokens={} expected={} bad={}", n, expected.len(), bad);
    if bad > 0 || n != expected.len() { println!("F1 REPRODUCED: lexer output differs from longest-match tokenization"); std::process::exit(1); }
    println!("F1 not reproduced: all {} tokens correct", n);
}
// exit status: 1 when the defect shows (wrong / missing tokens), 0 otherwise
