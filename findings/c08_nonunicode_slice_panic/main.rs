use lalrpop_util::lexer::MatcherBuilder;
fn main() {
    let b = MatcherBuilder::new(vec![(".", false), (r"\s+", true)]).unwrap();
    let mut m = b.matcher::<()>("é");
    println!("{:?}", m.next());
}
