//! Kani harnesses for lalrpop_util::lexer (the REAL crate, by path) against the regex-automata
//! contract shim.  Bounds: automaton <= 3 states, 2 byte classes, 2 patterns, text <= 3 bytes
//! over {a, b}.  Assertion messages start with the ids of the properties they transcribe.
#![allow(static_mut_refs)]
use lalrpop_util::lexer::{MatcherBuilder, Token};
use lalrpop_util::ParseError;
use regex_automata::{class, Automaton};

pub const TEXTS: [&str; 15] = ["", "a", "b", "aa", "ab", "ba", "bb", "aaa", "aab", "aba", "abb", "baa", "bab", "bba", "bbb"];

/// Oracle written from C09's statement: the longest prefix of `text[pos..]` matched by any pattern,
/// and the set of patterns matching at that length.
pub fn longest(a: &Automaton, text: &[u8], pos: usize) -> Option<(usize, u8)> {
    let mut q = 0usize;
    let mut best = if a.acc[0] != 0 { Some((0usize, a.acc[0])) } else { None };
    let mut j = pos;
    while j < text.len() {
        q = a.delta[q][class(text[j])] as usize;
        if a.acc[q] != 0 { best = Some((j + 1 - pos, a.acc[q])); }
        j += 1;
    }
    best
}
pub fn max_bit(m: u8) -> usize { if m & 2 != 0 { 1 } else { 0 } }

/// What C08/C09 prescribe for the next call at oracle position `pos`:
/// Ok(Some((start, idx, end))) token | Ok(None) end of input | Err((loc, zero_len)) InvalidToken at loc
pub fn expected(a: &Automaton, text: &str, mut p: usize, skip: [bool; 2]) -> Result<Option<(usize, usize, usize)>, (usize, bool)> {
    let tb = text.as_bytes();
    let mut guard = 0;
    while p < tb.len() && guard < 4 {
        guard += 1;
        match longest(a, tb, p) {
            None => return Err((p, false)),
            Some((l, mask)) => {
                let idx = max_bit(mask);
                if l == 0 { return Err((p, true)); }
                // a match that ends inside a multi-byte character (possible only without the `unicode` feature) cannot be
                // returned as a `&str` token: nothing representable matches here
                if !text.is_char_boundary(p + l) { return Err((p, false)); }
                if skip[idx] { p += l; continue; }
                return Ok(Some((p, idx, p + l)));
            }
        }
    }
    Ok(None)
}

/// Drive the real `Matcher` for at most `max_calls` calls and compare every result with the oracle.
pub fn tokenize_and_check(text: &'static str, skip: [bool; 2], max_calls: usize) {
    let b = MatcherBuilder::new([("p0", skip[0]), ("p1", skip[1])]).unwrap();
    let a: Automaton = unsafe { regex_automata::LAST_BUILT }.unwrap();
    let tb = text.as_bytes();
    let mut m = b.matcher::<()>(text);
    let mut pos = 0usize;
    let mut calls = 0usize;
    while calls < max_calls {
        calls += 1;
        let expect = expected(&a, text, pos, skip);
        match m.next() {
            None => {
                assert!(matches!(expect, Ok(None)), "C09 lexer ended the token stream although unskipped input remains");
                return;
            }
            Some(Ok((s, Token(i, txt), e))) => {
                assert!(e > s, "C08 lexer yielded an empty token without consuming input (it would be yielded forever)");
                match expect {
                    Ok(Some((es, ei, ee))) => {
                        assert!(s == es, "C09 token start is not the byte offset where the previous token or skip ended");
                        assert!(e == ee, "C09 token is not the longest match at its position");
                        assert!(i == ei, "C09 token index is not the highest-index (highest precedence) pattern among the longest matches");
                        assert!(!skip[i], "C09 a skipped pattern yielded a token");
                        assert!(txt.len() == e - s && txt.as_ptr() == tb[s..].as_ptr(), "C09 token text is not the matched input text");
                        pos = ee;
                    }
                    Err((_, true)) => return, // zero-length best match: only progress (C08) is prescribed
                    _ => { assert!(false, "C09 lexer produced a token where InvalidToken or end of input was expected"); return; }
                }
            }
            Some(Err(ParseError::InvalidToken { location })) => {
                match expect {
                    Err((loc, _)) => { assert!(location == loc, "C09 InvalidToken is not reported at the first position where nothing matches"); }
                    _ => { assert!(false, "C09 InvalidToken reported although some pattern matches here"); }
                }
                return;
            }
            Some(Err(_)) => { assert!(false, "C09 lexer returned an error other than InvalidToken"); return; }
        }
    }
}

#[cfg(kani)]
mod proofs {
    use super::*;

    /// first call of next() on every text of length <= 2
    #[kani::proof]
    #[kani::unwind(5)]
    fn lexer_first_token_len2() {
        let t: usize = kani::any();
        kani::assume(t < 7);
        tokenize_and_check(TEXTS[t], [kani::any(), kani::any()], 1);
    }

    /// two calls of next() on every text of length <= 2
    #[kani::proof]
    #[kani::unwind(5)]
    fn lexer_two_tokens_len2() {
        let t: usize = kani::any();
        kani::assume(t < 7);
        tokenize_and_check(TEXTS[t], [kani::any(), kani::any()], 2);
    }

    /// whole token stream on every text of length <= 2
    #[kani::proof]
    #[kani::unwind(5)]
    fn lexer_stream_len2() {
        let t: usize = kani::any();
        kani::assume(t < 7);
        tokenize_and_check(TEXTS[t], [kani::any(), kani::any()], 3);
    }

    /// first call on texts of length 3
    #[kani::proof]
    #[kani::unwind(6)]
    fn lexer_first_token_len3() {
        let t: usize = kani::any();
        kani::assume(t >= 7 && t < 15);
        tokenize_and_check(TEXTS[t], [kani::any(), kani::any()], 1);
    }
    /// non-ASCII input.  This crate links lalrpop-util WITHOUT the `unicode` feature, where the assumed DFA contract
    /// allows a match to end at any byte offset (the shim's automaton works on byte classes).
    /// `core::str::slice_error_fail` only formats the panic message of an out-of-boundary slice; it is stubbed by a
    /// plain panic because message formatting dominates CBMC's cost.
    fn slice_fail_stub(_s: &str, _begin: usize, _end: usize) -> ! {
        panic!("C08 lexer slices the input text at a byte offset that is not a character boundary (str slice panic)")
    }
    #[kani::proof]
    #[kani::unwind(6)]
    #[kani::stub(core::str::slice_error_fail, slice_fail_stub)]
    fn lexer_first_token_nonascii() {
        let t: usize = kani::any();
        kani::assume(t < 3);
        tokenize_and_check(["\u{e9}", "a\u{e9}", "\u{e9}a"][t], [kani::any(), kani::any()], 1);
    }
    // @PLAYBACK@
}
