//! Contract shim of the part of regex-automata 0.4 that lalrpop-util::lexer uses.
//!
//! It is NOT regex-automata: it is the *assumed contract* of the hybrid (lazy) DFA, written down as a
//! small explicit automaton so that the real `lalrpop_util::lexer::{MatcherBuilder, Matcher}` can be
//! checked against it by Kani.  Assumed contract (regex-automata 0.4.14, `hybrid/dfa.rs` docs):
//!   * anchored multi-pattern search with `MatchKind::All`;
//!   * a match is reported one byte late: the state returned for byte i `is_match()` iff some
//!     pattern matches text[..i]; `next_eoi_state` reports a match of the whole text;
//!   * `match_len`/`match_pattern(id, n)` enumerate exactly the patterns matching at a match state;
//!   * a dead state means no later match is possible;
//!   * **a `LazyStateID` is valid only until the cache it came from is next cleared, and any call that
//!     takes `&mut Cache` (`start_state_forward`, `next_state`, `next_eoi_state`) may clear it.**
//!     Using an ID of an older epoch violates the dependency's precondition.
//! `build_many` ignores the regex text: the automaton (transition table, accept sets) is symbolic.
#![allow(dead_code)]
pub const MAX_STATES: usize = 3;
pub const CLASSES: usize = 2;
pub const MAX_PATS: usize = 2;

#[derive(Clone, Copy, Debug, PartialEq, Eq)]
pub enum Anchored { No, Yes }
#[derive(Clone, Copy, Debug, PartialEq, Eq)]
pub enum MatchKind { All, LeftmostFirst }
pub struct Input<'h> { pub hay: &'h str, pub anchored: Anchored }
impl<'h> Input<'h> {
    pub fn new(h: &'h str) -> Self { Input { hay: h, anchored: Anchored::No } }
    pub fn anchored(mut self, a: Anchored) -> Self { self.anchored = a; self }
}
#[derive(Clone, Copy, Debug, PartialEq, Eq)]
pub struct PatternID(pub usize);
impl PatternID { pub fn as_usize(&self) -> usize { self.0 } }

pub mod util { pub mod syntax {
    #[derive(Clone, Copy, Default)] pub struct Config;
    impl Config { pub fn new() -> Self { Config } pub fn unicode(self, _: bool) -> Self { self } pub fn utf8(self, _: bool) -> Self { self } }
} }
pub mod nfa { pub mod thompson {
    #[derive(Clone, Copy, Default)] pub struct Config;
    impl Config { pub fn new() -> Self { Config } pub fn utf8(self, _: bool) -> Self { self } pub fn shrink(self, _: bool) -> Self { self } }
} }

/// The automaton behind the most recently built DFA, for the harness' oracle.
#[derive(Clone, Copy)]
pub struct Automaton {
    pub npats: usize,
    pub delta: [[u8; CLASSES]; MAX_STATES],
    /// bitmask of the patterns accepting in state q
    pub acc: [u8; MAX_STATES],
    /// some accepting state is reachable from q (q itself included)
    pub live: [bool; MAX_STATES],
}
pub static mut LAST_BUILT: Option<Automaton> = None;
/// number of uses of a stale state ID observed (the harness asserts this stays 0)
pub static mut STALE_USES: u32 = 0;
pub fn class(b: u8) -> usize { (b & 1) as usize }

pub mod hybrid {
    #[derive(Debug)] pub struct BuildError;
    #[derive(Debug)] pub struct CacheError;
    #[derive(Debug)] pub struct StartError;
    /// underlying state `q`; `m`: patterns matching the text *before* the last byte (delayed match);
    /// `epoch`: the cache generation this ID belongs to.
    #[derive(Clone, Copy, Debug)]
    pub struct LazyStateID { pub q: u8, pub m: u8, pub dead: bool, pub epoch: u8 }
    impl LazyStateID {
        pub fn is_match(&self) -> bool { self.m != 0 }
        pub fn is_dead(&self) -> bool { self.dead }
    }
    pub mod dfa {
        use super::*;
        use crate::*;
        pub struct Config; impl Config { pub fn match_kind(self, _: MatchKind) -> Self { self } }
        pub struct Builder;
        impl Builder {
            pub fn configure(&mut self, _: Config) -> &mut Self { self }
            pub fn syntax(&mut self, _: crate::util::syntax::Config) -> &mut Self { self }
            pub fn thompson(&mut self, _: crate::nfa::thompson::Config) -> &mut Self { self }
            pub fn build_many<P: AsRef<str>>(&self, pats: &[P]) -> Result<DFA, BuildError> {
                let d = DFA { a: symbolic(pats.len()) };
                unsafe { LAST_BUILT = Some(d.a); }
                Ok(d)
            }
        }
        pub struct Cache { pub epoch: u8 }
        pub struct DFA { pub a: Automaton }

        #[cfg(kani)]
        fn symbolic(npats: usize) -> Automaton {
            let d = Automaton { npats, delta: kani::any(), acc: kani::any(), live: kani::any() };
            let mask: u8 = ((1u16 << npats) - 1) as u8;
            let mut q = 0;
            while q < MAX_STATES {
                kani::assume(d.acc[q] & !mask == 0);
                let mut c = 0;
                while c < CLASSES { kani::assume((d.delta[q][c] as usize) < MAX_STATES); c += 1; }
                q += 1;
            }
            // `live` is exact: q is live iff it accepts or some successor is live; three rounds of the
            // fixpoint suffice for MAX_STATES = 3
            let mut q = 0;
            while q < MAX_STATES {
                let succ_live = d.live[d.delta[q][0] as usize] || d.live[d.delta[q][1] as usize];
                kani::assume(d.live[q] == (d.acc[q] != 0 || succ_live));
                q += 1;
            }
            // exclude the self-supporting over-approximation (a cycle of non-accepting states marked live)
            let mut q = 0;
            while q < MAX_STATES {
                if d.live[q] {
                    // an accepting state is reachable within MAX_STATES-1 steps
                    let q1a = d.delta[q][0] as usize; let q1b = d.delta[q][1] as usize;
                    let r1 = d.acc[q1a] != 0 || d.acc[q1b] != 0;
                    let r2 = d.acc[d.delta[q1a][0] as usize] != 0 || d.acc[d.delta[q1a][1] as usize] != 0
                        || d.acc[d.delta[q1b][0] as usize] != 0 || d.acc[d.delta[q1b][1] as usize] != 0;
                    kani::assume(d.acc[q] != 0 || r1 || r2);
                }
                q += 1;
            }
            d
        }
        #[cfg(not(kani))]
        fn symbolic(npats: usize) -> Automaton {
            // concrete replay: the automaton is taken from the environment (see replay harness)
            crate::replay_automaton(npats)
        }

        impl DFA {
            pub fn builder() -> Builder { Builder }
            pub fn config() -> Config { Config }
            pub fn create_cache(&self) -> Cache { Cache { epoch: 0 } }
            fn maybe_clear(&self, cache: &mut Cache) {
                #[cfg(kani)]
                { if kani::any() && cache.epoch < 200 { cache.epoch += 1; } }
                #[cfg(not(kani))]
                { if crate::replay_clear() && cache.epoch < 200 { cache.epoch += 1; } }
            }
            fn check(&self, cache: &Cache, id: LazyStateID) {
                if id.epoch != cache.epoch { unsafe { STALE_USES += 1; } }
                assert!(id.epoch == cache.epoch, "C08 C09 regex-automata contract violated: a LazyStateID is used after the cache that issued it may have been cleared (stale state ID)");
            }
            pub fn start_state_forward(&self, cache: &mut Cache, _input: &Input<'_>) -> Result<LazyStateID, StartError> {
                self.maybe_clear(cache);
                Ok(LazyStateID { q: 0, m: 0, dead: false, epoch: cache.epoch })
            }
            pub fn next_state(&self, cache: &mut Cache, cur: LazyStateID, b: u8) -> Result<LazyStateID, CacheError> {
                self.check(cache, cur);
                self.maybe_clear(cache);
                if cur.dead { return Ok(LazyStateID { epoch: cache.epoch, m: 0, ..cur }); }
                let m = self.a.acc[cur.q as usize];
                let q2 = self.a.delta[cur.q as usize][class(b)];
                let dead = m == 0 && !self.a.live[q2 as usize];
                Ok(LazyStateID { q: q2, m, dead, epoch: cache.epoch })
            }
            pub fn next_eoi_state(&self, cache: &mut Cache, cur: LazyStateID) -> Result<LazyStateID, CacheError> {
                self.check(cache, cur);
                self.maybe_clear(cache);
                if cur.dead { return Ok(LazyStateID { epoch: cache.epoch, m: 0, ..cur }); }
                Ok(LazyStateID { q: cur.q, m: self.a.acc[cur.q as usize], dead: false, epoch: cache.epoch })
            }
            pub fn match_len(&self, cache: &Cache, id: LazyStateID) -> usize {
                self.check(cache, id);
                id.m.count_ones() as usize
            }
            pub fn match_pattern(&self, cache: &Cache, id: LazyStateID, n: usize) -> PatternID {
                self.check(cache, id);
                let mut seen = 0;
                let mut p = 0;
                while p < crate::MAX_PATS {
                    if id.m & (1 << p) != 0 {
                        if seen == n { return PatternID(p); }
                        seen += 1;
                    }
                    p += 1;
                }
                panic!("match index out of range")
            }
        }
    }
}

// ---------------------------------------------------------------------------------------------
// concrete replay support (used by `./check <id> --replay`): the automaton and the cache-clear
// schedule come from the REPLAY_* statics set by the replay program.
// ---------------------------------------------------------------------------------------------
pub static mut REPLAY_AUTOMATON: Option<Automaton> = None;
pub static mut REPLAY_CLEARS: u64 = 0;
pub static mut REPLAY_CLEAR_POS: u32 = 0;
#[cfg(not(kani))]
pub fn replay_automaton(npats: usize) -> Automaton {
    unsafe { REPLAY_AUTOMATON }.unwrap_or(Automaton { npats, delta: [[0; CLASSES]; MAX_STATES], acc: [0; MAX_STATES], live: [false; MAX_STATES] })
}
#[cfg(not(kani))]
pub fn replay_clear() -> bool {
    unsafe {
        let bit = (REPLAY_CLEARS >> (REPLAY_CLEAR_POS % 64)) & 1 == 1;
        REPLAY_CLEAR_POS += 1;
        bit
    }
}
