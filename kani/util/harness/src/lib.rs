//! Kani harnesses for the ParseError helpers of lalrpop-util/src/lib.rs (the REAL crate, by path).
//! Instantiation: L = T = E = u8; `op` is an arbitrary function on the domain (symbolic table).
//! Assertion messages start with the property id they transcribe (C28).
use lalrpop_util::ParseError;
use core::fmt::{self, Write};

pub type PE = ParseError<u8, u8, u8>;

/// A fixed-buffer `fmt::Write` (no String, no allocation) to capture `Display` output.
pub struct Buf { pub b: [u8; 96], pub n: usize }
impl Buf { pub fn new() -> Self { Buf { b: [0; 96], n: 0 } } pub fn as_bytes(&self) -> &[u8] { &self.b[..self.n] } }
impl Write for Buf {
    fn write_str(&mut self, s: &str) -> fmt::Result {
        let bytes = s.as_bytes();
        let mut i = 0;
        while i < bytes.len() {
            if self.n >= self.b.len() { return Err(fmt::Error); }
            self.b[self.n] = bytes[i];
            self.n += 1;
            i += 1;
        }
        Ok(())
    }
}
/// A value whose Display writes exactly one fixed character.
#[derive(Clone, Copy, Debug, PartialEq, Eq)]
pub struct Ch(pub u8);
impl fmt::Display for Ch {
    fn fmt(&self, f: &mut fmt::Formatter<'_>) -> fmt::Result { f.write_char(self.0 as char) }
}

pub fn bytes_eq(a: &[u8], b: &[u8]) -> bool {
    if a.len() != b.len() { return false; }
    let mut i = 0;
    while i < a.len() { if a[i] != b[i] { return false; } i += 1; }
    true
}

#[cfg(kani)]
mod proofs {
    use super::*;
    extern crate alloc;
    use alloc::{string::String, vec::Vec, vec};

    fn expected_list() -> Vec<String> {
        if kani::any() { vec![] } else { vec![String::from("x")] }
    }
    fn same_list(a: &Vec<String>, n: usize) -> bool {
        a.len() == n && (n == 0 || (a[0].len() == 1 && a[0].as_bytes()[0] == b'x'))
    }

    // ------------------------------------------------------------------ map_location
    #[kani::proof]
    #[kani::unwind(3)]
    fn map_location_invalid_token() {
        let table: [u8; 256] = kani::any();
        let l: u8 = kani::any();
        let mut calls = 0u32;
        let r = PE::InvalidToken { location: l }.map_location(|x| { calls += 1; table[x as usize] });
        assert!(matches!(r, ParseError::InvalidToken { location } if location == table[l as usize]), "C28 map_location must apply the function to InvalidToken.location");
        assert!(calls == 1, "C28 map_location applies the function exactly once per location");
    }
    #[kani::proof]
    #[kani::unwind(3)]
    fn map_location_unrecognized_eof() {
        let table: [u8; 256] = kani::any();
        let l: u8 = kani::any();
        let ex = expected_list();
        let n = ex.len();
        let mut calls = 0u32;
        let r = PE::UnrecognizedEof { location: l, expected: ex }.map_location(|x| { calls += 1; table[x as usize] });
        match r {
            ParseError::UnrecognizedEof { location, expected } => {
                assert!(location == table[l as usize], "C28 map_location must apply the function to UnrecognizedEof.location");
                assert!(same_list(&expected, n), "C28 map_location must leave the expected list alone");
            }
            _ => assert!(false, "C28 map_location must keep the variant"),
        }
        assert!(calls == 1, "C28 map_location applies the function exactly once per location");
    }
    #[kani::proof]
    #[kani::unwind(3)]
    fn map_location_unrecognized_token() {
        let table: [u8; 256] = kani::any();
        let (s, t, e): (u8, u8, u8) = (kani::any(), kani::any(), kani::any());
        let ex = expected_list();
        let n = ex.len();
        let mut calls = 0u32;
        let r = PE::UnrecognizedToken { token: (s, t, e), expected: ex }.map_location(|x| { calls += 1; table[x as usize] });
        match r {
            ParseError::UnrecognizedToken { token, expected } => {
                assert!(token.0 == table[s as usize], "C28 map_location must apply the function to the start of the token span");
                assert!(token.2 == table[e as usize], "C28 map_location must apply the function to the end of the token span");
                assert!(token.1 == t, "C28 map_location must leave the token alone");
                assert!(same_list(&expected, n), "C28 map_location must leave the expected list alone");
            }
            _ => assert!(false, "C28 map_location must keep the variant"),
        }
        assert!(calls == 2, "C28 map_location applies the function to both ends of a token span and nothing else");
    }
    #[kani::proof]
    #[kani::unwind(3)]
    fn map_location_extra_token() {
        let table: [u8; 256] = kani::any();
        let (s, t, e): (u8, u8, u8) = (kani::any(), kani::any(), kani::any());
        let mut calls = 0u32;
        let r = PE::ExtraToken { token: (s, t, e) }.map_location(|x| { calls += 1; table[x as usize] });
        match r {
            ParseError::ExtraToken { token } => {
                assert!(token.0 == table[s as usize], "C28 map_location must apply the function to the start of the token span");
                assert!(token.2 == table[e as usize], "C28 map_location must apply the function to the end of the token span");
                assert!(token.1 == t, "C28 map_location must leave the token alone");
            }
            _ => assert!(false, "C28 map_location must keep the variant"),
        }
        assert!(calls == 2, "C28 map_location applies the function to both ends of a token span and nothing else");
    }
    #[kani::proof]
    #[kani::unwind(3)]
    fn map_location_user() {
        let table: [u8; 256] = kani::any();
        let u: u8 = kani::any();
        let mut calls = 0u32;
        let r = PE::User { error: u }.map_location(|x| { calls += 1; table[x as usize] });
        assert!(matches!(r, ParseError::User { error } if error == u), "C28 map_location must leave user errors alone");
        assert!(calls == 0, "C28 map_location must not call the function for a User error");
    }

    // ------------------------------------------------------------------ map_token / map_error
    // one harness per (helper, variant); `which`: 0 = map_token, 1 = map_error
    fn check_case(variant: u8, which: u8) {
        let table: [u8; 256] = kani::any();
        let (a, b, c): (u8, u8, u8) = (kani::any(), kani::any(), kani::any());
        let ex = expected_list();
        let n = ex.len();
        let p = match variant {
            0 => PE::InvalidToken { location: a },
            1 => PE::UnrecognizedEof { location: a, expected: ex },
            2 => PE::UnrecognizedToken { token: (a, b, c), expected: ex },
            3 => PE::ExtraToken { token: (a, b, c) },
            _ => PE::User { error: a },
        };
        let mut calls = 0u32;
        let r = if which == 0 { p.map_token(|t| { calls += 1; table[t as usize] }) } else { p.map_error(|t| { calls += 1; table[t as usize] }) };
        let tok = if which == 0 { table[b as usize] } else { b };
        let err = if which == 1 { table[a as usize] } else { a };
        match (variant, r) {
            (0, ParseError::InvalidToken { location }) => {
                assert!(location == a, "C28 map_token / map_error must leave locations alone");
                assert!(calls == 0, "C28 map_token / map_error must not call the function when their field is absent");
            }
            (1, ParseError::UnrecognizedEof { location, expected }) => {
                assert!(location == a, "C28 map_token / map_error must leave locations alone");
                assert!(same_list(&expected, n), "C28 map_token / map_error must leave the expected list alone");
                assert!(calls == 0, "C28 map_token / map_error must not call the function when their field is absent");
            }
            (2, ParseError::UnrecognizedToken { token, expected }) => {
                assert!(token.0 == a && token.2 == c, "C28 map_token / map_error must leave locations alone");
                assert!(token.1 == tok, "C28 map_token applies the function to the token, map_error leaves it alone");
                assert!(same_list(&expected, n), "C28 map_token / map_error must leave the expected list alone");
                assert!(calls == (if which == 0 { 1 } else { 0 }), "C28 map_token calls the function once per token, map_error never for a token");
            }
            (3, ParseError::ExtraToken { token }) => {
                assert!(token.0 == a && token.2 == c, "C28 map_token / map_error must leave locations alone");
                assert!(token.1 == tok, "C28 map_token applies the function to the token, map_error leaves it alone");
                assert!(calls == (if which == 0 { 1 } else { 0 }), "C28 map_token calls the function once per token, map_error never for a token");
            }
            (4, ParseError::User { error }) => {
                assert!(error == err, "C28 map_error applies the function to the user error, map_token leaves it alone");
                assert!(calls == (if which == 1 { 1 } else { 0 }), "C28 map_error calls the function once per user error, map_token never");
            }
            _ => assert!(false, "C28 map_token / map_error must keep the variant"),
        }
    }
    #[kani::proof] #[kani::unwind(3)] fn map_token_invalid_token() { check_case(0, 0) }
    #[kani::proof] #[kani::unwind(3)] fn map_token_unrecognized_eof() { check_case(1, 0) }
    #[kani::proof] #[kani::unwind(3)] fn map_token_unrecognized_token() { check_case(2, 0) }
    #[kani::proof] #[kani::unwind(3)] fn map_token_extra_token() { check_case(3, 0) }
    #[kani::proof] #[kani::unwind(3)] fn map_token_user() { check_case(4, 0) }
    #[kani::proof] #[kani::unwind(3)] fn map_error_invalid_token() { check_case(0, 1) }
    #[kani::proof] #[kani::unwind(3)] fn map_error_unrecognized_eof() { check_case(1, 1) }
    #[kani::proof] #[kani::unwind(3)] fn map_error_unrecognized_token() { check_case(2, 1) }
    #[kani::proof] #[kani::unwind(3)] fn map_error_extra_token() { check_case(3, 1) }
    #[kani::proof] #[kani::unwind(3)] fn map_error_user() { check_case(4, 1) }

    // ------------------------------------------------------------------ From<E>
    #[kani::proof]
    fn from_builds_user() {
        let e: u8 = kani::any();
        let p: PE = PE::from(e);
        assert!(matches!(p, ParseError::User { error } if error == e), "C28 From<E> must build User { error }");
    }

    // ------------------------------------------------------------------ Display (BOUNDED: expected.len() <= N)
    fn expected_n(n: usize) -> Vec<String> {
        let names = ["a", "b", "c", "d"];
        let mut v = Vec::new();
        let mut i = 0;
        while i < n { v.push(String::from(names[i])); i += 1; }
        v
    }
    fn shown(p: &ParseError<Ch, Ch, Ch>, want: &[u8]) {
        let mut buf = Buf::new();
        let r = write!(buf, "{}", p);
        assert!(r.is_ok(), "C28 Display must not fail on a writer that accepts everything");
        assert!(bytes_eq(buf.as_bytes(), want), "C28 Display output differs from the documented form");
    }
    #[kani::proof] #[kani::unwind(40)]
    fn display_user() { shown(&ParseError::User { error: Ch(b'e') }, b"e"); }
    #[kani::proof] #[kani::unwind(40)]
    fn display_invalid_token() { shown(&ParseError::InvalidToken { location: Ch(b'7') }, b"Invalid token at 7"); }
    #[kani::proof] #[kani::unwind(40)]
    fn display_extra_token() { shown(&ParseError::ExtraToken { token: (Ch(b'1'), Ch(b't'), Ch(b'2')) }, b"Extra token t found at 1:2"); }
    #[kani::proof] #[kani::unwind(60)]
    fn display_unrecognized_eof_0() { shown(&ParseError::UnrecognizedEof { location: Ch(b'9'), expected: expected_n(0) }, b"Unrecognized EOF found at 9"); }
    #[kani::proof] #[kani::unwind(60)]
    fn display_unrecognized_eof_1() { shown(&ParseError::UnrecognizedEof { location: Ch(b'9'), expected: expected_n(1) }, b"Unrecognized EOF found at 9\nExpected one of a"); }
    #[kani::proof] #[kani::unwind(90)]
    fn display_unrecognized_token_2() { shown(&ParseError::UnrecognizedToken { token: (Ch(b'1'), Ch(b't'), Ch(b'2')), expected: expected_n(2) }, b"Unrecognized token `t` found at 1:2\nExpected one of a or b"); }
    #[kani::proof] #[kani::unwind(90)]
    fn display_unrecognized_token_3() { shown(&ParseError::UnrecognizedToken { token: (Ch(b'1'), Ch(b't'), Ch(b'2')), expected: expected_n(3) }, b"Unrecognized token `t` found at 1:2\nExpected one of a, b or c"); }
    #[kani::proof] #[kani::unwind(90)]
    fn display_unrecognized_token_4() { shown(&ParseError::UnrecognizedToken { token: (Ch(b'1'), Ch(b't'), Ch(b'2')), expected: expected_n(4) }, b"Unrecognized token `t` found at 1:2\nExpected one of a, b, c or d"); }
    // @PLAYBACK@
}
